"""C01 -- every instruction statement is encoded as the MC6809 instruction it names (DESIGN 4/C01)."""
from vlib.driver import Ob
from . import stmt

PID = "C01"
BOUNDS = ("one instruction statement per program (+ at most ORG / EQU / one label); operand value symbolic over the "
          "whole range of its spelling class (decimal 1-5,7 digits, $hex 1-5 digits, %binary 7/8/16 digits, negative "
          "decimal 1-5 digits), EQU constants before/after use, label addresses with symbolic 16-bit origin; "
          "mnemonic x operand form x index register x spelling class enumerated from the README grammar and the "
          "datasheet mode table (quick: every mnemonic x each of its modes, full cross product for class "
          "representatives; thorough: full cross product)")
OUTSIDE = "text variation (white space, comments, letter case: C18); branches (C03); expressions (C04); multi-statement layout (C02)"
ASSUMPTIONS = ["Appendix A of DESIGN.md fixes validity and the interchangeable encodings"]


def make(sh):
    def body(ctx):
        c = stmt.build(ctx, sh)
        val = stmt.is_valid(sh, c.v)
        if not val:
            return True, c.info            # C01 says nothing about invalid statements (C12 does)
        ok = c.out.ok and stmt.semantic_ok(sh, c.v, c.b)
        if ok:
            return True, c.info
        if sh.src and sh.src[0] in ("lit", "equ") and sh.src[1] == "B7" and c.kind == "diag":
            return True, c.info            # %binary literals that are not 8 or 16 digits: accepted either way (Appendix A)
        return ctx.known(PID, sh.tags(), c.env), c.info
    return Ob("C01:" + sh.sid, body, timeout=40, tags=sh.tags(), text=sh.text())


def obligations(tier, seed):
    return [make(sh) for sh in stmt.corpus(tier, seed)]


def gates(tier, seed):
    from .gates import assembler_gates
    return assembler_gates(tier, seed)
