"""C02 -- listing addresses, symbol values and the emitted image agree (DESIGN 4/C02)."""
from vlib import shapes as S
from vlib.driver import Ob
from vlib.harness import assemble, image, symbols
from . import prog, stmt

PID = "C02"
BOUNDS = ("(a) every statement shape of C01 (+ data directives): emitted byte count == listing size <= max_size, value "
          "symbolic over its class; (b) program templates of 4-12 statements mixing instruction forms, data "
          "directives, labels, EQU, PCR operands, with symbolic origin (0..65535 incl. below $100 and no ORG) and "
          "symbolic RMB gaps: listing address of every statement == origin + bytes emitted before it, every label == "
          "that address, every EQU == its value, reported origin == o; (c) the same templates with concrete gaps and "
          "symbolic operands: image == in-order concatenation; (d) duplicate label / undefined symbol rejected; "
          "a later ORG (gap 0,1,2,7,200 bytes; backward) and code before the ORG: rejected, or every statement's bytes lie "
          "at (listing address - reported origin) in the image and nothing lies in front of the first / behind the last; "
          "two ORGs with only NAM/EQU/SETDP between them; single-operand data directives: size <= max_size")
OUTSIDE = "programs longer than 12 statements / more than 3 symbolic gaps; address wrap past $FFFF is assumed away"
ASSUMPTIONS = []


def make_a(sh):
    def body(ctx):
        c = stmt.build(ctx, sh)
        if c.kind != "ok" or c.b is None:
            return True, c.info
        ok = (c.n == c.size) and (c.size <= c.max_size)
        if ok:
            return True, c.info
        return ctx.known(PID, sh.tags(), c.env), c.info
    return Ob("C02:a:" + sh.sid, body, timeout=40, tags=sh.tags(), text=sh.text())


TEMPLATES = {
    "mix1": [("lit", "v", "D3", 0, 255), ("org", "H4"), ("ins", "START", "LDA", "#{v}"), ("gap", "n", 40000),
             ("ins", "L1", "LDX", "#L2"), ("ins", "", "STA", "L1"), ("gap", "n2", 300), ("ins", "L2", "JMP", "START"),
             ("ins", "", "FCB", "1,2,3"), ("ins", "L3", "FDB", "L1"), ("ins", "", "END", "START")],
    "noorg": [("lit", "v", "D5", 0, 65535), ("ins", "START", "LDD", "#{v}"), ("gap", "n", 40000), ("ins", "L1", "STD", "L2"),
              ("ins", "L2", "RTS", ""), ("ins", "L3", "FCC", '"ABC"'), ("ins", "L4", "NOP", "")],
    "equ": [("lit", "v", "H4"), ("lit", "w", "H2"), ("ins", "K1", "EQU", "{v}"), ("org", "H4"),
            ("ins", "A1", "LDA", "K2"), ("ins", "A2", "LDX", "K1"), ("ins", "K2", "EQU", "{w}"), ("gap", "n", 40000),
            ("ins", "A3", "STB", "K1"), ("ins", "A4", "CLR", ">K2"), ("ins", "A5", "NOP", "")],
    "idx": [("lit", "w", "D5", 0, 65535), ("lit", "x", "N5", -32768, 32768), ("org", "H4"), ("ins", "I1", "LDA", "{w},X"),
            ("ins", "I2", "LDX", "{w},Y"), ("ins", "I3", "STA", "{x},U"), ("ins", "I4", "LDY", "[{w},S]"),
            ("ins", "I5", "LEAX", "{x},X"), ("ins", "I6", "NOP", "")],
    "pcr": [("org", "H4"), ("ins", "P1", "LDA", "T,PCR"), ("gap", "n", 300), ("ins", "P2", "LEAX", "P1,PCR"),
            ("ins", "P3", "LDY", "[T,PCR]"), ("gap", "n2", 300), ("ins", "T", "NOP", ""), ("ins", "E", "NOP", "")],
    "inh": [("org", "H4")] + [("ins", "", m, "") for m in ["NOP", "SWI", "SYNC", "SWI2", "SWI3", "RTS", "ABX", "MUL", "SEX", "DAA"]]
           + [("ins", "E", "NOP", "")],
    "stack": [("org", "H4"), ("ins", "", "PSHS", "A,B,X"), ("ins", "", "TFR", "X,Y"), ("ins", "", "ANDCC", "#$FE"),
              ("ins", "", "CWAI", "#$00"), ("ins", "B1", "BRA", "E"), ("ins", "", "LBSR", "E"), ("ins", "", "LBEQ", "E"),
              ("ins", "E", "PULS", "A,B,X,PC")],
    "data": [("lit", "v", "D3", 0, 255), ("org", "H4"), ("ins", "D1", "FCB", "{v}"), ("ins", "D2", "FDB", "{v}"),
             ("ins", "D3", "FCB", "{v},1"), ("ins", "D4", "FDB", "1,{v},3"), ("ins", "D5", "FCC", "/HELLO/"),
             ("gap", "n", 40000), ("ins", "D6", "SETDP", "0"), ("ins", "D7", "NAM", "X1"), ("ins", "E", "NOP", "")],
    "lowmem": [("org", "H2"), ("ins", "Z1", "LDA", "Z2"), ("ins", "", "JMP", "Z2"), ("ins", "Z2", "NOP", ""),
               ("ins", "", "LDX", "#Z1"), ("ins", "E", "NOP", "")],
}


def _low(r):
    """some label of the program lies below $100 (independent address arithmetic)"""
    low = False
    for m in r.meta:
        if m.get("label") and m.get("m") != "EQU" and m["addr"] < 256:
            low = True
    return low


def make_b(name, items):
    tpl = prog.Template("b:" + name, items)

    def body(ctx):
        r = prog.run(ctx, tpl)
        info = {"lines": r.lines, "outcome": r.out.describe()}
        if r.out.kind in ("loop", "internal"):
            return True, info
        if r.out.kind == "diag":
            env = {"kind": "diag", "msg": str(r.out.exc)}
            env.update(r.vals)
            return ctx.known(PID, {"part": "b", "tpl": name}, env), info
        sym = symbols(r.out.program)
        ok = True
        bad = None
        seen_org = "o" not in r.vals
        for i, m in enumerate(r.meta):
            if m["kind"] == "org":
                seen_org = True
            if not seen_org or m.get("m") == "EQU":
                continue            # statements before ORG emit nothing here; an EQU line's listing column is not an address
            if m["listing_addr"] != m["addr"]:
                ok, bad = False, ("addr", i)
                break
            if m.get("label") and m.get("m") != "EQU":
                if sym.get(m["label"]) != m["addr"]:
                    ok, bad = False, ("label", i)
                    break
            if m["kind"] == "ins" and m["size"] != m["n_emitted"]:
                ok, bad = False, ("size", i)
                break
        if ok and "o" in r.vals:
            org = r.out.program.origin
            if org.is_none() or org.int != r.vals["o"]:
                ok, bad = False, ("origin", None)
        if ok:
            for it in tpl.items:
                if it[0] == "ins" and it[2] == "EQU" and it[3].startswith("{"):
                    if sym.get(it[1]) != r.vals[it[3].strip("{}")]:
                        ok, bad = False, ("equ", it[1])
        info["bad"] = bad
        info["addrs"] = [(m.get("listing_addr"), m.get("addr")) for m in r.meta][:14]
        if ok:
            return True, info
        env = {"kind": "ok", "bad": bad, "badkind": bad[0], "badidx": bad[1], "low_label": _low(r)}
        env.update(r.vals)
        return ctx.known(PID, {"part": "b", "tpl": name}, env), info
    return Ob("C02:b:" + name, body, timeout=(500 if name.startswith("rnd") else 120), tags={"part": "b", "tpl": name}, text=tpl.text)


def make_c(name, items, gaps):
    """concrete gaps, symbolic operand values: image == concatenation of the statements' bytes"""
    items2 = []
    gi = 0
    for it in items:
        if it[0] == "gap":
            items2.append(("ins", "", "RMB", str(gaps[gi % len(gaps)])))
            gi += 1
        else:
            items2.append(it)
    tpl = prog.Template("c:%s:%s" % (name, "-".join(map(str, gaps))), items2)

    def body(ctx):
        r = prog.run(ctx, tpl)
        info = {"lines": r.lines, "outcome": r.out.describe()}
        if r.out.kind != "ok":
            return True, info
        img = image(r.out.program)
        exp = []
        for m in r.meta:
            if m["kind"] == "ins":
                exp = exp + m["b"]
        ok = (len(img) == len(exp)) and (img == exp)
        # RMB n really is n zero bytes; total length == sum of listing sizes
        tot = 0
        for m in r.meta:
            tot = tot + m["size"]
            if m.get("m") == "RMB":
                nn = int(m["operand"])
                if m["b"] != [0] * nn:
                    ok = False
        ok = ok and (tot == len(img))
        if ok:
            return True, info
        info["image"] = img[:40]
        return ctx.known(PID, {"part": "c", "tpl": name}, {"kind": "ok", "low_label": _low(r)}), info
    return Ob("C02:" + tpl.tid, body, timeout=120, tags={"part": "c", "tpl": name}, text=tpl.text)


def make_d(did, lines_fn, expect, text):
    def body(ctx):
        lines = lines_fn(ctx)
        out = assemble(lines)
        info = {"lines": lines, "outcome": out.describe()}
        if expect == "diag":
            ok = out.kind != "ok"
        else:
            ok = expect(ctx, out)
        if ok:
            return True, info
        env = {"kind": out.kind}
        if out.kind == "ok":
            env["image"] = image(out.program)
        return ctx.known(PID, {"part": "d", "case": did}, env), info
    return Ob("C02:d:" + did, body, timeout=60, tags={"part": "d", "case": did}, text=text)


def _later_org(ctx, out, first_code=True):
    """reject, or: image loaded at the reported origin places every statement's bytes at its listing address (the image
    may hold filler between the segments, never anything in front of the first byte or behind the last)"""
    if out.kind != "ok":
        return True
    p = out.program
    img = image(p)
    if p.origin.is_none():
        return False
    base = p.origin.int
    from vlib.harness import stmt_bytes
    end = 0
    first = None
    for st in p.statements:
        b = stmt_bytes(st)
        if len(b) == 0:
            continue
        at = st.code_pkg.address.int - base
        if first is None:
            first = at
        if at < end or at + len(b) > len(img):
            return False                          # overlaps the previous statement / lies outside the image
        if img[at:at + len(b)] != b:
            return False
        end = at + len(b)
    return first == 0 and end == len(img)


def random_templates(seed, count):
    """seeded random programs: 6-14 statements drawn from a pool of statement kinds, labels on about half of them,
    references forwards and backwards, up to two symbolic gaps, symbolic origin (or none) and operand values"""
    import random
    rnd = random.Random(seed * 1000 + 77)
    out = {}
    for t in range(count):
        n = rnd.randint(6, 14)
        labels = ["R%d" % i for i in range(n) if rnd.random() < 0.5] or ["R0"]
        lits = [("lit", "v", "D3", 0, 255), ("lit", "w", "D5", 0, 65535), ("lit", "x", "N3", -128, 127)]
        items = []
        if rnd.random() < 0.8:
            items.append(("org", rnd.choice(["H4", "H4", "H2"])))
        gaps = 0
        body = []
        for i in range(n):
            lab = "R%d" % i if ("R%d" % i) in labels else ""
            ref = rnd.choice(labels)
            kind = rnd.choice(["nop", "imm8", "imm16", "lblimm", "ext", "jmp", "lbra", "pcr", "pcr2", "idx", "idxneg", "idx16",
                               "stack", "tfr", "fcb", "fdb", "fcc", "inh2", "dir", "extind", "gap", "equ"])
            if kind == "gap":
                if gaps < 2:
                    gaps += 1
                    if lab:
                        body.append(("ins", lab, "NOP", ""))
                    body.append(("gap", "n%d" % gaps, rnd.choice([300, 40000])))
                    continue
                kind = "nop"
            st = {
                "nop": ("NOP", ""), "imm8": ("LDA", "#{v}"), "imm16": ("LDX", "#{w}"), "lblimm": ("LDU", "#%s" % ref),
                "ext": ("STA", ">{w}"), "jmp": ("JMP", ref), "lbra": (rnd.choice(["LBRA", "LBSR", "LBNE"]), ref),
                "pcr": ("LEAX", "%s,PCR" % ref), "pcr2": ("LDD", "[%s,PCR]" % ref), "idx": ("LDB", "{v},Y"),
                "idxneg": ("STA", "{x},U"), "idx16": ("LDX", "{w},S"), "stack": ("PSHS", "A,X,PC"), "tfr": ("TFR", "D,Y"),
                "fcb": ("FCB", "1,2,{v}"), "fdb": ("FDB", "{w},7"), "fcc": ("FCC", "/AB/"), "inh2": (rnd.choice(["SWI2", "SWI", "SYNC", "RTS"]), ""),
                "dir": ("LDA", "<{v}"), "extind": ("JSR", "[{w}]"), "equ": ("EQU", "{w}"),
            }[kind]
            if kind == "equ":
                if not lab or rnd.random() < 0.5:
                    body.append(("ins", lab, "NOP", ""))
                    continue
                body.append(("ins", "K%d" % i, "EQU", "{w}"))
                body.append(("ins", lab, "NOP", ""))
                continue
            body.append(("ins", lab, st[0], st[1]))
        out["rnd%d" % t] = lits + items + body + [("ins", "TAIL", "NOP", "")]
    return out


def obligations(tier, seed):
    obs = [make_a(sh) for sh in stmt.corpus(tier, seed)]
    for name, items in random_templates(seed, 12 if tier == "quick" else 150).items():
        obs.append(make_b(name, items))
    for name, items in TEMPLATES.items():
        obs.append(make_b(name, items))
        for gaps in ([0], [1, 2], [255, 256], [3, 1000]):
            obs.append(make_c(name, items, gaps))
    # (d)
    def two_labels(ctx):
        t, v = ctx.lit("D3", "v")
        return ["L1 LDA #%s" % t, "L2 NOP", "L1 NOP"]
    obs.append(make_d("dup-label", two_labels, "diag", "L1 LDA #v / L2 NOP / L1 NOP"))
    obs.append(make_d("dup-equ", lambda ctx: ["K EQU 1", "K EQU 2", " LDA #K"], "diag", "K EQU 1 / K EQU 2"))
    obs.append(make_d("dup-label-equ", lambda ctx: ["K NOP", "K EQU 2"], "diag", "K NOP / K EQU 2"))
    for i, opnd in enumerate(["UNDEF", "#UNDEF", "[UNDEF]", "UNDEF,X", "UNDEF,PCR", "UNDEF+1", "<UNDEF", ">UNDEF"]):
        obs.append(make_d("undef-%d" % i, (lambda o: (lambda ctx: [" LDA %s" % o, "L NOP"]))(opnd), "diag", "LDA " + opnd))
    for i, (m, opnd) in enumerate([("BRA", "UNDEF"), ("LBRA", "UNDEF"), ("FDB", "UNDEF"), ("FCB", "UNDEF"), ("LEAX", "UNDEF,PCR"),
                                   ("JMP", "UNDEF"), ("LDX", "#UNDEF+2")]):
        obs.append(make_d("undef-m%d" % i, (lambda a, o: (lambda ctx: [" %s %s" % (a, o), "L NOP"]))(m, opnd), "diag", m + " " + opnd))

    def include_twice_lines(ctx):
        t, o = ctx.lit("H4", "o")
        ctx.assume(o <= 60000)
        return [" ORG %s" % t, "START LDB #4", " INCLUDE frag.asm", "MID LDX #START", " INCLUDE frag.asm", "TAIL JMP MID", "LAST NOP"]

    def include_twice_ok(ctx, out):
        if out.kind != "ok":
            return False
        return _later_org(ctx, out) and len(image(out.program)) == 2 + 5 + 3 + 5 + 3 + 1

    def make_inc(did, lines_fn, expect, text):
        from vlib.harness import MemFS
        inner = make_d(did, lines_fn, expect, text)
        body0 = inner.body

        def body(ctx):
            with MemFS({"frag.asm": [" CLR ,X+\n", " LDA #$55\n", " NOP\n"]}):
                return body0(ctx)
        inner.body = body
        return inner
    obs.append(make_inc("include-twice", include_twice_lines, include_twice_ok, "a label-free file included twice: layout and image"))

    full = tier == "thorough"
    for g in ([0, 1, 2, 7, 200] if not full else [0, 1, 2, 3, 7, 8, 255, 256, 2000]):
        def later_org_g(ctx, g=g):
            t1, o1 = ctx.lit("H4", "o1")
            ctx.assume(o1 <= 60000)
            ctx.assume(o1 >= 4096)
            # the second origin is written relative to the first through an EQU-free literal: o1 + 3 + g
            t2, o2 = ctx.lit("H4", "o2")
            ctx.assume(o2 == o1 + 3 + g)
            return [" ORG %s" % t1, "A NOP", " LDA #1", " ORG %s" % t2, "B NOP", " RTS"]
        obs.append(make_d("later-org:+%d" % g, later_org_g, lambda ctx, out: out.kind == "ok" and _later_org(ctx, out),
                          "ORG o1 / NOP / LDA #1 / ORG o1+3+%d / NOP / RTS: accepted, every byte at its listing address" % g))

    def leading_rmb(ctx):
        t1, o1 = ctx.lit("H4", "o1")
        ctx.assume(o1 <= 60000)
        tn, n = ctx.lit("D2", "n")
        return [" ORG %s" % t1, "COUNT RMB %s" % tn, "START LDA #1", " STA COUNT", " RTS"]
    obs.append(make_d("leading-rmb", leading_rmb, lambda ctx, out: out.kind == "ok" and _later_org(ctx, out),
                      "ORG o / COUNT RMB n / code: the reserved bytes are the start of the image"))
    obs.append(make_d("leading-rmb-then-org-back", lambda ctx: [" ORG $0E10", "BUF RMB 4", " ORG $0E00", "S NOP", " RTS"], _later_org,
                      "ORG $0E10 / RMB 4 / ORG $0E00 / code: rejected (or laid out)"))
    obs.append(make_d("leading-fcb-then-org", lambda ctx: [" ORG $0E00", "T FCB 1,2", " ORG $0E08", "S NOP", " RTS"],
                      lambda ctx, out: out.kind == "ok" and _later_org(ctx, out), "data first, then a later ORG"))

    def later_org_back(ctx):
        t1, o1 = ctx.lit("H4", "o1")
        t2, o2 = ctx.lit("H4", "o2")
        ctx.assume(o1 <= 60000)
        ctx.assume(o2 < o1 + 3)
        return [" ORG %s" % t1, "A NOP", " LDA #1", " ORG %s" % t2, "B NOP", " RTS"]
    obs.append(make_d("later-org:back", later_org_back, _later_org, "ORG o1 / NOP / LDA #1 / ORG o2 < o1+3 / NOP / RTS: rejected (or laid out)"))

    def double_org(ctx):
        t1, o1 = ctx.lit("H4", "o1")
        t2, o2 = ctx.lit("H4", "o2")
        ctx.assume(o2 <= 60000)
        return [" ORG %s" % t1, " NAM PROG", "K EQU 5", " SETDP 0", " ORG %s" % t2, "A LDA #K", "B JMP A", " RTS"]
    obs.append(make_d("double-org-no-code", double_org, lambda ctx, out: out.kind == "ok" and _later_org(ctx, out),
                      "ORG o1 / NAM, EQU, SETDP only / ORG o2 / code: laid out and reported at o2"))

    def directive_case(text, cls):
        def lines_fn(ctx):
            t, v = ctx.lit(cls, "v")
            return ["D " + text.replace("{v}", t), "E NOP"]

        def expect(ctx, out):
            if out.kind != "ok":
                return True
            st = out.program.statements[0]
            from vlib.harness import stmt_bytes
            try:
                b = stmt_bytes(st)
            except Exception:  # noqa: BLE001
                return True                      # C13's subject
            return len(b) == st.code_pkg.size and st.code_pkg.size <= st.code_pkg.max_size \
                and out.program.statements[1].code_pkg.address.int == len(b)
        return make_d("directive:%s:%s" % (text.split()[0] + str(len(text)), cls), lines_fn, expect, text)
    for text, cls in [("FDB {v}", "H4"), ("FDB {v}", "D3"), ("FCB {v}", "D2"), ("FCB {v},1", "D2"), ("FDB {v},2,3", "D5"), ("FDB 1,{v}", "H4"),
                      ("FCB 1,2,3,{v}", "H2"), ("FDB $1234", "D1"), ("FCB $12", "D1"), ('FCC "HELLO"', "D1"), ("FCC /A/", "D1")]:
        if "{v}" not in text:
            text2 = text
            obs.append(make_d("directive:%s" % text2.replace(" ", "_"), (lambda tt: (lambda ctx: ["D " + tt, "E NOP"]))(text2),
                              (lambda ctx, out: out.kind != "ok" or (out.program.statements[0].code_pkg.size <= out.program.statements[0].code_pkg.max_size
                                                                     and out.program.statements[1].code_pkg.address.int == out.program.statements[0].code_pkg.size)), text2))
        else:
            obs.append(directive_case(text, cls))

    for o2v in ([3, 4, 40] if not full else [3, 4, 5, 40, 256, 3000]):
        obs.append(make_d("code-before-org:%d" % o2v, (lambda o2v: (lambda ctx: ["A NOP", " LDA #1", " ORG $%04X" % o2v, "B NOP", " RTS"]))(o2v),
                          lambda ctx, out: out.kind == "ok" and _later_org(ctx, out), "NOP / LDA #1 / ORG %d / NOP / RTS" % o2v))
    obs.append(make_d("code-before-org:back", lambda ctx: ["A NOP", " LDA #1", " ORG $0002", "B NOP", " RTS"], _later_org,
                      "NOP / LDA #1 / ORG 2 / NOP / RTS: rejected (or laid out)"))
    return obs


def gates(tier, seed):
    from .gates import assembler_gates
    return assembler_gates(tier, seed)
