"""C03 -- branch and PC-relative displacements reach exactly the referenced target (DESIGN 4/C03)."""
from vlib import shapes as S
from vlib.driver import Ob
from vlib.oracle_6809 import canonical, decode
from . import prog

PID = "C03"
BOUNDS = ("templates [ORG o; SRC; RMB n; TGT] and [ORG o; TGT; RMB n; SRC] for all 19 short and 19 long branches and "
          "label,PCR / [label,PCR] / label+k,PCR / label-k,PCR operands of 1- and 2-byte-opcode instructions; "
          "templates with 2 and 3 PCR statements whose spans overlap or nest; origin o symbolic 16 bit, every gap n "
          "symbolic in [0,40000] (so every distance incl. +-127/128 and +-32767/32768 is decided by the solver), "
          "k symbolic in [0,300]; single-reference templates with every size class of filler statement (data directives, "
          "indexed forms, long branches) inside the span; chains of 3-5 (thorough 8) unsized PCR statements")
OUTSIDE = ("non-terminating sizing (C13) and internal errors (C13) are assumed away here; bare numeric n,PCR is C01's; "
           "more than 3 PCR statements per program")
ASSUMPTIONS = ["addresses are computed from the origin and the byte counts actually emitted (listing agreement is C02's)"]

GAP = 40000


def check_src(r, i, target_label, k):
    """displacement law for the statement at meta index i referring to target_label (+k)"""
    m = r.meta[i]
    b = m["b"]
    d = decode(b)
    if d is None or d.length != len(b) or d.op != canonical(m["m"]) or m["size"] != len(b):
        return False
    nxt = m["addr"] + len(b)
    tgt = r.labels[target_label] + k
    if d.mode in ("rel8", "rel16"):
        disp = d.value
    elif d.mode == "idx" and d.idx["kind"] == "pcr":
        disp = d.idx["offset"]
        want_ind = 1 if m["operand"].startswith("[") else 0
        if d.idx["ind"] != want_ind:
            return False
    else:
        return False
    return (nxt + disp - tgt) % 65536 == 0


def make(tid, items, refs, short=False):
    """refs: list of (index of the ins item among the non-"lit" items, target label, kvar or None, sign)"""
    tpl = prog.Template(tid, items)
    parts = tid.split(":")
    tags = {"tpl": parts[0], "short": short, "variant": parts[2] if len(parts) > 2 else parts[1]}

    def body(ctx):
        r = prog.run(ctx, tpl)
        if len(refs) > 1 and any(kn for (_i, _l, kn, _s) in refs):
            # several references, one with a constant: keep label+-constant surely inside 0..65535 (k <= 999, gaps <= 300),
            # so that nothing in the template may be rejected
            ctx.assume(1100 <= r.vals["o"])
            ctx.assume(r.vals["o"] <= 63000)
        info = {"lines": r.lines, "outcome": r.out.describe()}
        if r.out.kind in ("loop", "internal"):
            return True, info                    # C13's subject
        # expected distance for the short-branch rejection rule (independent arithmetic)
        if r.out.kind == "diag":
            if not short:
                bad = True                       # nothing in these templates may be rejected ...
                if len(refs) == 1 and refs[0][2]:
                    # ... except a label+constant whose value lies outside 0..65535 (C04: reduced modulo 65536 OR rejected)
                    # (label addresses are not available for a rejected program: independent bounds from o, n and the
                    # possible sizes of the source statement; acceptance is demanded only when the target is surely in range)
                    i0, _lab0, kname0, sign0 = refs[0]
                    kk = sign0 * r.vals[kname0]
                    ol = S.opcode_len(r.meta[i0]["m"])
                    if "fwd" in tid:
                        lo, hi = r.vals["o"] + ol + 2 + r.vals["n"] + kk, r.vals["o"] + ol + 3 + r.vals["n"] + kk
                    else:
                        lo = hi = r.vals["o"] + kk
                    bad = (0 <= lo) and (hi <= 65535)
            else:
                bad = None
            if short:
                # a short branch may (must) be rejected only when the distance is outside -128..127
                d = short_distance(r, tpl)
                bad = (-128 <= d) and (d <= 127)
            if not bad:
                return True, info
            env = {"kind": "diag", "msg": str(r.out.exc), "vals": r.vals}
            env.update(r.vals)
            return ctx.known(PID, tags, env), info
        ok = True
        for (i, label, kname, sign) in refs:
            k = 0
            if kname:
                k = sign * r.vals[kname]
            if not check_src(r, i, label, k):
                ok = False
                break
        info["bytes"] = [m.get("b") for m in r.meta if m["kind"] == "ins"]
        if ok:
            return True, info
        src = r.meta[refs[0][0]]
        oplen = S.opcode_len(src["m"])
        # independent arithmetic for the single-reference templates: true displacement and whether the distance to the
        # label ALONE (constant ignored) satisfies the tree's 8-bit rule -- used only to delimit the known-finding class
        dtrue, label_fits8, tneg = None, None, None
        if len(refs) == 1 and "n" in r.vals:
            i0, lab0, kname0, sign0 = refs[0]
            kk = sign0 * r.vals[kname0] if kname0 else 0
            tneg = r.labels[lab0] + kk < 0
            if "fwd" in tid:
                dtrue = r.vals["n"] + kk
                label_fits8 = r.vals["n"] + (oplen + 1) + 4 <= 127
            else:
                dtrue = -(1 + r.vals["n"] + len(src["b"])) + kk
                label_fits8 = 1 + r.vals["n"] + (oplen + 1) + 1 <= 128
        env = {"kind": "ok", "vals": r.vals, "b": src["b"], "short": short, "oplen": oplen, "dtrue": dtrue,
               "label_fits8": label_fits8, "tneg": tneg, "dist": short_distance(r, tpl) if short else None}
        env.update(r.vals)
        return ctx.known(PID, tags, env), info
    ob = Ob("C03:" + tid, body, timeout=(400 if tid.startswith("multi") else 90), tags=tags, text=tpl.text)
    ob.items = items
    return ob


def short_distance(r, tpl):
    """signed distance from the end of a 2-byte short branch to its target, from o and n only"""
    n = r.vals["n"]
    kinds = [it[0] + (":" + it[1] if it[0] == "ins" else "") for it in tpl.items]
    if "fwd" in tpl.tid:
        return n
    return -(1 + n + 2)


def obligations(tier, seed):
    obs = []
    full = tier == "thorough"
    shorts = S.REL8
    longs = S.REL16
    if not full:
        pass
    for m in shorts + longs:
        short = m in shorts
        fwd = [("org", "H4"), ("ins", "SRC", m, "TGT"), ("gap", "n", GAP), ("ins", "TGT", "NOP", "")]
        bwd = [("org", "H4"), ("ins", "TGT", "NOP", ""), ("gap", "n", GAP), ("ins", "SRC", m, "TGT")]
        obs.append(make("br-fwd:%s" % m, fwd, [(1, "TGT", None, 1)], short))
        obs.append(make("br-bwd:%s" % m, bwd, [(3, "TGT", None, 1)], short))
    for m in shorts + longs:
        obs.append(make("br-self:%s" % m, [("org", "H4"), ("ins", "", "NOP", ""), ("ins", "SRC", m, "SRC"), ("ins", "", "NOP", "")],
                        [(2, "SRC", None, 1)], False))
    for m in ["LDA", "LEAX", "LDY"]:
        obs.append(make("pcr-self:%s" % m, [("org", "H4"), ("ins", "SRC", m, "SRC,PCR"), ("ins", "", "NOP", "")], [(1, "SRC", None, 1)]))
        obs.append(make("pcr-next:%s" % m, [("org", "H4"), ("ins", "SRC", m, "NXT,PCR"), ("ins", "NXT", "NOP", "")], [(1, "NXT", None, 1)]))
    for m, opnd in [("LDA", "T,PCR"), ("JMP", "[T,PCR]"), ("LEAX", "T,PCR"), ("LBRA", "T"), ("LBSR", "T")]:
        items = [("org", "H4"), ("ins", "T", "NOP", ""), ("gap", "n", 300), ("ins", "SRC", m, opnd), ("ins", "", "ORG", "$FFF0"), ("ins", "", "NOP", "")]
        obs.append(make("then-org:%s:%s" % (m, "ind" if "[" in opnd else "dir"), items, [(3, "T", None, 1)], False))
    pcr_ops = ["LDA", "LEAX", "LDY", "STX", "JSR", "CMPD", "LEAS", "CLR"] if full else ["LDA", "LEAX", "LDY"]
    for m in pcr_ops:
        for name, opnd, kname, sign in [("pcr", "TGT,PCR", None, 1), ("[pcr]", "[TGT,PCR]", None, 1),
                                        ("pcr+k", "TGT+{k},PCR", "k", 1), ("pcr-k", "TGT-{k},PCR", "k", -1),
                                        ("[pcr+k]", "[TGT+{k},PCR]", "k", 1)]:
            lit = [("lit", "k", "D3")] if kname else []
            fwd = lit + [("org", "H4"), ("ins", "SRC", m, opnd), ("gap", "n", GAP), ("ins", "TGT", "NOP", "")]
            bwd = lit + [("org", "H4"), ("ins", "TGT", "NOP", ""), ("gap", "n", GAP), ("ins", "SRC", m, opnd)]
            obs.append(make("pcr-fwd:%s:%s" % (m, name), fwd, [(1, "TGT", kname, sign)]))
            obs.append(make("pcr-bwd:%s:%s" % (m, name), bwd, [(3, "TGT", kname, sign)]))
        # the constant reached through an EQU symbol, negative or positive (label+SYM / label-SYM)
        for name, opnd, sign in [("pcr+sym", "TGT+KS,PCR", 1), ("pcr-sym", "TGT-KS,PCR", -1), ("[pcr+sym]", "[TGT+KS,PCR]", 1)]:
            for cls in (["N3"] if not full else ["N3", "D3"]):
                pre = [("lit", "k", cls), ("ins", "KS", "EQU", "{k}")]
                fwd = pre + [("org", "H4"), ("ins", "SRC", m, opnd), ("gap", "n", GAP), ("ins", "TGT", "NOP", "")]
                bwd = pre + [("org", "H4"), ("ins", "TGT", "NOP", ""), ("gap", "n", GAP), ("ins", "SRC", m, opnd)]
                obs.append(make("pcr-fwd:%s:%s:%s" % (m, name, cls), fwd, [(2, "TGT", "k", sign)]))
                obs.append(make("pcr-bwd:%s:%s:%s" % (m, name, cls), bwd, [(4, "TGT", "k", sign)]))
    # several PCR statements whose sizes depend on each other
    G = 300 if not full else 40000
    multi = {
        "nest2": ([("org", "H4"), ("ins", "P1", "LDA", "T2,PCR"), ("gap", "n", G), ("ins", "P2", "LEAX", "T1,PCR"),
                   ("gap", "n2", G), ("ins", "T1", "NOP", ""), ("gap", "n3", G), ("ins", "T2", "NOP", "")],
                  [(1, "T2", None, 1), (3, "T1", None, 1)]),
        "cross2": ([("org", "H4"), ("ins", "T1", "NOP", ""), ("gap", "n", G), ("ins", "P1", "LDA", "T2,PCR"),
                    ("gap", "n2", G), ("ins", "P2", "LDY", "T1,PCR"), ("gap", "n3", G), ("ins", "T2", "NOP", "")],
                   [(3, "T2", None, 1), (5, "T1", None, 1)]),
        "adj2": ([("org", "H4"), ("ins", "P1", "LDA", "T,PCR"), ("ins", "P2", "LDB", "T,PCR"), ("gap", "n", G),
                  ("ins", "T", "NOP", "")], [(1, "T", None, 1), (2, "T", None, 1)]),
        "back2": ([("org", "H4"), ("ins", "T", "NOP", ""), ("gap", "n", G), ("ins", "P1", "LDA", "T,PCR"),
                   ("ins", "P2", "LEAX", "T,PCR")], [(3, "T", None, 1), (4, "T", None, 1)]),
        "br-over-pcr": ([("org", "H4"), ("ins", "S", "LBRA", "T"), ("ins", "P1", "LDA", "T,PCR"), ("gap", "n", G),
                         ("ins", "T", "NOP", "")], [(1, "T", None, 1), (2, "T", None, 1)]),
        "nest3": ([("org", "H4"), ("ins", "P1", "LDA", "T,PCR"), ("gap", "n", G), ("ins", "P2", "LDX", "T,PCR"),
                   ("gap", "n2", G), ("ins", "P3", "LEAY", "T,PCR"), ("gap", "n3", G), ("ins", "T", "NOP", "")],
                  [(1, "T", None, 1), (3, "T", None, 1), (5, "T", None, 1)]),
        "idx-between": ([("org", "H4"), ("lit", "w", "D3"), ("ins", "P1", "LDA", "T,PCR"), ("ins", "", "LDB", "{w},X"),
                         ("gap", "n", G), ("ins", "T", "NOP", "")], [(1, "T", None, 1)]),
    }
    fillers = [("FDB", "$1234"), ("FCB", "$12"), ("FDB", "1,2,3"), ("FCC", '"ABC"'), ("LDA", "5,X"), ("LDX", "300,Y"), ("LDA", "-20,U"), ("SWI", ""),
               ("LDY", "#$1234"), ("PSHS", "A,B"), ("JMP", "[$1234]"), ("LDA", "[$10]"), ("LDB", ",X+"), ("CLR", "<$20"), ("LBRA", "T")]
    for fi, (fm, fo) in enumerate(fillers):
        multi["fill-bwd%d" % fi] = ([("org", "H4"), ("ins", "T", fm if fm != "LBRA" else "NOP", fo if fm != "LBRA" else ""), ("ins", "", fm, fo), ("gap", "n", 300),
                                     ("ins", "SRC", "LEAX", "T,PCR")], [(4, "T", None, 1)])
        multi["fill-fwd%d" % fi] = ([("org", "H4"), ("ins", "SRC", "LDA", "T,PCR"), ("ins", "", fm if fm != "LBRA" else "NOP", fo if fm != "LBRA" else ""), ("ins", "", fm if fm != "LBRA" else "NOP", fo if fm != "LBRA" else ""),
                                     ("gap", "n", 300), ("ins", "T", "NOP", "")], [(1, "T", None, 1)])
    for kchain in ([3, 5] if not full else [3, 4, 5, 8]):
        items = [("org", "H4"), ("ins", "P0", "LDA", "NEAR,PCR")]
        for j in range(kchain):
            items.append(("ins", "", "LDB", "FAR,PCR"))
        items += [("gap", "n", 200), ("ins", "NEAR", "NOP", ""), ("gap", "n2", 400), ("ins", "FAR", "NOP", "")]
        multi["chain%d" % kchain] = (items, [(1, "NEAR", None, 1)] + [(2 + j, "FAR", None, 1) for j in range(kchain)])
        itemsb = [("org", "H4"), ("ins", "FARB", "NOP", ""), ("gap", "n2", 400), ("ins", "NEARB", "NOP", ""), ("gap", "n", 200)]
        for j in range(kchain):
            itemsb.append(("ins", "", "LDB", "FARB,PCR"))
        itemsb.append(("ins", "P0", "LDA", "NEARB,PCR"))
        multi["chainb%d" % kchain] = (itemsb, [(5 + kchain, "NEARB", None, 1)] + [(5 + j, "FARB", None, 1) for j in range(kchain)])
    # a label+-constant target with other, not yet sized PCR statements between source and target (the span estimate is
    # only a bound there, and the constant moves the displacement across the 8/16-bit limit in either direction)
    for nb in (1, 3):
        for sgn, opn in ((-1, "T-{k},PCR"), (1, "T+{k},PCR"), (-1, "[T-{k},PCR]")):
            items = [("lit", "k", "D3"), ("org", "H4"), ("ins", "P1", "LEAX", opn)]
            for j in range(nb):
                items.append(("ins", "", "LEAY", "L0,PCR"))
            items += [("ins", "L0", "NOP", ""), ("gap", "n", 300), ("ins", "T", "NOP", "")]
            tag = "%s%s-over%d" % ("ind" if "[" in opn else "", "minus" if sgn < 0 else "plus", nb)
            multi["fwdk-" + tag] = (items, [(1, "T", "k", sgn)] + [(2 + j, "L0", None, 1) for j in range(nb)])
            itemsb = [("lit", "k", "D3"), ("org", "H4"), ("ins", "T", "NOP", ""), ("gap", "n", 300)]
            for j in range(nb):
                itemsb.append(("ins", "", "LEAY", "L9,PCR"))
            itemsb += [("ins", "P1", "LEAX", opn), ("ins", "L9", "NOP", "")]
            multi["bwdk-" + tag] = (itemsb, [(3 + nb, "T", "k", sgn)] + [(3 + j, "L9", None, 1) for j in range(nb)])
    for name, (items, refs) in multi.items():
        # the "lit" items must precede their use but not shift ins indices: prog.run handles lit first
        lits = [it for it in items if it[0] == "lit"]
        rest = [it for it in items if it[0] != "lit"]
        items2 = lits + rest
        obs.append(make("multi:%s" % name, items2, refs))
    return obs


def gates(tier, seed):
    from .gates import assembler_gates
    return assembler_gates(tier, seed)
