"""C04 -- symbols and two-term expressions evaluate to their arithmetic value everywhere (DESIGN 4/C04)."""
import random

from vlib import shapes as S
from vlib.driver import Ob
from vlib.harness import assemble, stmt_bytes, symbols
from vlib.oracle_6809 import IDX_REGS, decode

PID = "C04"
BOUNDS = ("operand positions {8-bit immediate, 16-bit immediate, direct/extended, [extended indirect], constant index "
          "offset, EQU, FDB, FCB} x L op R with op in + - * / and L, R in {decimal and $hex literals, EQU constants "
          "(decimal, hex, %binary, 'char spellings) defined before or after use, labels before or after use}; BOTH "
          "leaf values symbolic over their whole class range, label addresses via a symbolic 16-bit origin; single "
          "symbols in every position as the degenerate case; ONE EQU constant (symbolic 20..120) and ONE label shared by 13 "
          "statements of one program (8- and 16-bit immediates, n-LABEL / LABEL+n / LABEL-n, FCB/FDB lists, index offset, "
          "extended) in forward, reversed and seeded orders, EQU before and after use")
OUTSIDE = "expressions with more than two terms (not in the grammar); PCR targets with constants are C03's"
ASSUMPTIONS = ["int(a/b) model M5: exact for the operand ranges (IEEE lemma for constant divisors; exhaustive native "
               "validation for symbolic divisors is part of the thorough tier)"]

POSITIONS = {
    # name: (mnemonic, operand format, kind)
    "imm8": ("LDA", "#{e}", "imm8"),
    "imm16": ("LDX", "#{e}", "imm16"),
    "mem8": ("LDA", "{e}", "mem"),
    "mem16": ("LDX", "{e}", "mem"),
    "jmp": ("JMP", "{e}", "mem"),
    "extind": ("LDA", "[{e}]", "extind"),
    "idx": ("LDA", "{e},Y", "idx"),
    "idx16": ("LDX", "{e},U", "idx"),
    "equ": ("EQU", "{e}", "equ"),
    "fdb": ("FDB", "{e}", "fdb"),
    "fcb": ("FCB", "{e}", "fcb"),
}
LEAVES = ["D3", "D5", "H2", "H4", "equb:D5", "equa:H4", "equb:H2", "equa:D3", "equb:B8", "equb:char", "lblb", "lbla", "equb:N3", "equa:N5"]


def oexpr(op, l, r):
    """O-EXPR: arithmetic value, or None for division by zero (truncating division on non-negative operands)"""
    if op == "+":
        return l + r
    if op == "-":
        return l - r
    if op == "*":
        return l * r
    if r == 0:
        return None
    q = abs(l) // abs(r)                      # truncating division (towards zero), also for negative EQU constants
    return q if (l >= 0) == (r >= 0) else -q


def make(pos, lk, rk, op):
    m, fmt, kind = POSITIONS[pos]
    oid = "C04:%s:%s%s%s" % (pos, lk, {"+": "+", "-": "-", "*": "x", "/": "div", None: ""}[op], rk)

    def body(ctx):
        pre, post = [], []
        uses_label = "lbl" in lk or "lbl" in (rk or "")
        vals = {}

        def leaf(kindname, side):
            if kindname in ("D3", "D5", "H2", "H4", "H3", "D1"):
                t, v = ctx.lit(kindname, side)
                ctx.assume(v <= 65535)
                return t, v
            if kindname.startswith("equ"):
                where, cls = kindname[3], kindname.split(":")[1]
                name = "K" + side
                if cls == "char":
                    t, v = "'C", 67
                else:
                    t, v = ctx.lit(cls, side)
                    ctx.assume(v <= 65535)
                    ctx.assume(v >= -32768)          # a 16-bit quantity (an EQU below -32768 is rightly rejected)
                (pre if where == "b" else post).append("%s EQU %s" % (name, t))
                return name, v
            if kindname == "lblb":
                return "LB", None
            return "LA", None

        lt, lv = leaf(lk, "l")
        rt, rv = (None, None)
        if op is not None:
            rt, rv = leaf(rk, "r")
        e = lt if op is None else "%s%s%s" % (lt, op, rt)
        lines = []
        o = 0
        if uses_label:
            t, o = ctx.lit("H4", "o")
            ctx.assume(o <= 65000)
            lines.append(" ORG %s" % t)
        lines += pre
        lines.append("LB NOP")
        k = len(lines)
        if kind == "equ":
            lines.append("Q EQU %s" % e)
            lines.append("U LDX #Q")
        else:
            lines.append("T %s %s" % (m, fmt.format(e=e)))
        lines.append("LA NOP")
        lines += post
        out = assemble(lines)
        info = {"lines": lines, "outcome": out.describe()}
        if out.kind in ("internal", "loop"):
            return True, info
        # label addresses from independent arithmetic: LB = o, statement at o+1, LA = o+1+bytes(statement)
        b = None
        if out.kind == "ok":
            st = out.program.statements[k if kind != "equ" else k + 1]
            b = stmt_bytes(st)
            info["bytes"] = b
        nb = len(b) if b is not None else 0
        if lv is None:
            lv = o if lt == "LB" else o + 1 + nb
        if op is not None and rv is None:
            rv = o if rt == "LB" else o + 1 + nb
        r = lv if op is None else oexpr(op, lv, rv)
        info["expected"] = None
        if r is None:
            ok = out.kind == "diag"                      # division by zero must be rejected
        elif out.kind == "diag":
            lim = 255 if kind in ("imm8", "fcb") else 65535
            width_ok = (0 <= r) and (r <= lim)
            if "lbla" in (lk, rk):
                # the statement was rejected, so the address of the label behind it is known only up to the
                # statement's size (1..5 bytes): rejected rightly if any of those makes the result unrepresentable
                # (or the divisor zero)
                for extra in (1, 2, 3, 4, 5):
                    lv2 = (o + 1 + extra) if lt == "LA" else lv
                    rv2 = (o + 1 + extra) if rt == "LA" else rv
                    r2 = lv2 if op is None else oexpr(op, lv2, rv2)
                    width_ok = width_ok and (r2 is not None) and (0 <= r2) and (r2 <= lim)
            ok = not width_ok                            # a representable result must be accepted
        else:
            ok = encodes(kind, m, b, r)
        if ok:
            return True, info
        env = {"kind": out.kind, "b": b, "l": lv, "r": rv, "res": r, "op": op, "pos": pos, "lk": lk, "rk": rk,
               "poskind": kind, "llbl": "lbl" in lk, "rlbl": "lbl" in (rk or ""), "o": o,
               "wide": ("equ" in lk or "equ" in (rk or "") or "H4" in lk or "H4" in (rk or "") or "lbl" in lk or "lbl" in (rk or "") or lv >= 256 or (rv is not None and rv >= 256))}
        return ctx.known(PID, {"pos": pos, "poskind": kind, "op": op, "lk": lk.split(":")[0][:3], "rk": (rk or "").split(":")[0][:3]}, env), info
    return Ob(oid, body, timeout=120, tags={"pos": pos, "op": op}, text="%s %s   [%s %s %s]" % (m, fmt, lk, op, rk))


SHARED = [("LDB #K", lambda v, tb: [0xC6, v]), ("LDX #K", lambda v, tb: [0x8E, 0, v]), ("LDA #K+1", lambda v, tb: [0x86, v + 1]),
          ("LDY #K+1", lambda v, tb: [0x10, 0x8E, 0, v + 1]), ("LDD #$FFFF-TB", lambda v, tb: [0xCC] + _w(0xFFFF - tb)),
          ("LDX #TB+2", lambda v, tb: [0x8E] + _w(tb + 2)), ("LDU #TB-1", lambda v, tb: [0xCE] + _w(tb - 1)),
          ("FDB TB+2,K", lambda v, tb: _w(tb + 2) + _w(v)), ("FCB K,K+1", lambda v, tb: [v, v + 1]),
          ("LDA K,X", lambda v, tb: [0xA6, 0x88, v]), ("STA TB", lambda v, tb: [0xB7] + _w(tb)),
          ("CMPA #K", lambda v, tb: [0x81, v]), ("CMPX #K", lambda v, tb: [0x8C, 0, v])]


def _w(v):
    return [(v >> 8) & 255, v & 255]


def make_shared(sid, order, equ_after):
    """ONE EQU constant and ONE label used by many statements of one program, in 8- and 16-bit positions and in several
    expressions (n-LABEL, LABEL+n, LABEL-n, lists): every statement encodes the arithmetic value, whatever the other
    statements of the program did with the same symbol"""
    def body(ctx):
        t, v = ctx.lit("D3", "k")
        ctx.assume(20 <= v)
        ctx.assume(v <= 120)
        stm = [SHARED[i] for i in order]
        lines = [" ORG $2000"] + ([] if equ_after else ["K EQU %s" % t]) + [" " + x for x, _f in stm] + ["TB FDB 0"] + (["K EQU %s" % t] if equ_after else [])
        first = 1 if equ_after else 2
        out = assemble(lines)
        info = {"lines": lines, "outcome": out.describe()}
        fault = None
        if not out.ok:
            fault = "rejected"
        else:
            tb = 0x2000
            for x, f in stm:
                tb += len(f(0, 0))
            if symbols(out.program).get("TB") != tb or symbols(out.program).get("K") != v:
                fault = "symbol table"
            for i, (x, f) in enumerate(stm):
                got = stmt_bytes(out.program.statements[first + i])
                want = f(v, tb)
                if fault is None and (len(got) != len(want) or got != want):
                    fault = "%s emitted %r" % (x, list(got))
        info["fault"] = fault
        if fault is None:
            return True, info
        return ctx.known(PID, {"pos": "shared", "poskind": "shared", "op": None, "lk": "equ", "rk": ""}, {"fault": fault, "kind": out.kind}), info
    return Ob("C04:shared:" + sid, body, timeout=300, tags={"pos": "shared", "op": None}, text="one EQU constant and one label shared by %d statements (%s)" % (len(order), sid))


def encodes(kind, m, b, r):
    """the bytes encode value r at the width the position dictates (r reduced mod 65536 when outside 0..65535)"""
    if kind in ("fdb",):
        return b == [(r % 65536) // 256, r % 256]
    if kind == "fcb":
        if (0 <= r) and (r <= 255):
            return b == [r]
        return True                                      # width violations are C05/C12's subject
    if kind == "imm8" and (-128 <= r) and (r <= -1):
        return b[1:] == [r % 256] and len(b) == 2        # a negative 8-bit result: two's complement at 8 bits (or rejected)
    if kind == "imm8" and not ((0 <= r) and (r <= 255)):
        return True                                      # width violations are C12's subject
    d = decode(b)
    if d is None or d.length != len(b):
        return False
    if kind == "imm8":
        return d.mode == "imm8" and d.value == r
    if kind in ("imm16", "equ"):
        return d.mode == "imm16" and d.value == r % 65536
    if kind == "mem":
        return (d.mode == "dir" or d.mode == "ext") and d.value == r % 65536 and (d.mode == "ext" or r % 65536 < 256)
    if kind == "extind":
        return d.mode == "idx" and d.idx["kind"] == "extind" and d.idx["address"] == r % 65536
    if kind == "idx":
        return d.mode == "idx" and d.idx["kind"] == "const" and d.idx["ind"] == 0 and (d.idx["offset"] - r) % 65536 == 0
    return False


def obligations(tier, seed):
    rnd = random.Random(seed + 11)
    obs = []
    full = tier == "thorough"
    pairs_all = [(a, b) for a in LEAVES for b in LEAVES]
    core_pairs = [("D5", "D5"), ("H4", "D3"), ("D3", "H2"), ("equb:D5", "D3"), ("D5", "equa:H4"), ("equb:H2", "equa:D3"),
                  ("lblb", "D3"), ("lbla", "D3"), ("D3", "lblb"), ("equb:B8", "equb:char"), ("lblb", "equb:D5"),
                  ("equa:H4", "lbla"), ("equb:N3", "D3"), ("D3", "equa:N5"), ("equb:N3", "equa:N5"), ("lblb", "equb:N3")]
    for pos in POSITIONS:
        for op in "+-*/":
            pairs = pairs_all if full else core_pairs
            if not full and pos not in ("imm16", "mem16", "idx", "fdb"):
                pairs = core_pairs[:4] + rnd.sample(core_pairs[4:12], 3) + core_pairs[12:14]
            for lk, rk in pairs:
                if "lbl" in lk and "lbl" in rk:
                    continue
                obs.append(make(pos, lk, rk, op))
        # single symbol / literal in every position
        for lk in (LEAVES if full else ["D5", "H4", "equb:D5", "equa:H4", "lblb", "lbla", "equb:B8"]):
            o = make(pos, lk, None, None)
            o.oid = "C04:%s:single:%s" % (pos, lk)
            obs.append(o)
    n = len(SHARED)
    obs.append(make_shared("forward", list(range(n)), False))
    obs.append(make_shared("reversed", list(range(n))[::-1], False))
    obs.append(make_shared("equ-after", list(range(n)), True))
    for i in range(3 if not full else 12):
        order = list(range(n))
        rnd.shuffle(order)
        obs.append(make_shared("perm%d" % i, order, bool(i % 2)))
    return obs


def gates(tier, seed):
    from .gates import assembler_gates
    return assembler_gates(tier, seed)
