"""C05 -- data directives emit exactly the bytes they specify (DESIGN 4/C05)."""
import itertools
import random

from vlib.driver import Ob
from vlib.harness import assemble, stmt_bytes, image

PID = "C05"
BOUNDS = ("FCB/FDB lists of length 1,2,3,8,64 with up to 4 symbolic elements (decimal, hex, negative spellings, EQU "
          "symbols; the other elements concrete); RMB n with n symbolic over every spelling class (size and value field "
          "checked structurally) and concrete n in {0,1,2,255,256,1000} for the bytes; FCC by exhaustive enumeration "
          "(NOT a solver verdict): all strings of length <=1 (quick) / <=2 (thorough) over printable ASCII for 4 "
          "delimiters plus a boundary corpus up to 255 characters (incl. tabs and the delimiter inside the comment); "
          "FCB/FDB lists holding labels, label expressions, symbols defined after use and a trailing comma, at a symbolic "
          "origin; EQU/ORG/SETDP/NAM/END/INCLUDE emit nothing")
OUTSIDE = "FCC content is enumerated, not symbolic (strings pass through the line regex); lists longer than 64"
ASSUMPTIONS = []

CLASSES = ["D3", "D5", "H2", "H4", "N3", "N5", "H1", "B8"]


def expected(kind, v):
    """(valid?, bytes) for one element"""
    if kind == "FCB":
        return ((-128 <= v) and (v <= 255)), [v % 256]
    return ((-32768 <= v) and (v <= 65535)), [(v % 65536) // 256, v % 256]


def make_list(kind, length, sym_pos, classes, via_equ=False):
    oid = "C05:%s:len%d:%s:%s%s" % (kind, length, "-".join(map(str, sym_pos)), "-".join(classes), ":equ" if via_equ else "")

    def body(ctx):
        elems = []
        vals = []
        pre = []
        negzero = False
        for i in range(length):
            if i in sym_pos:
                cls = classes[sym_pos.index(i)]
                t, v = ctx.lit(cls, "v%d" % i)
                if cls[0] == "N" and v == 0:
                    negzero = True
                if via_equ:
                    pre.append("S%d EQU %s" % (i, t))
                    t = "S%d" % i
                elems.append(t)
                vals.append(v)
            else:
                c = (i * 37 + 11) % 200
                elems.append(str(c))
                vals.append(c)
        lines = pre + ["D %s %s" % (kind, ",".join(elems)), "E NOP"]
        out = assemble(lines)
        info = {"lines": lines, "outcome": out.describe()}
        allvalid = True
        exp = []
        for v in vals:
            ok1, bs = expected(kind, v)
            if not ok1:
                allvalid = False
            exp = exp + bs
        if out.kind == "ok":
            st = out.program.statements[len(pre)]
            try:
                b = stmt_bytes(st)
            except Exception as e:  # noqa: BLE001
                b = None
                info["outcome"] = "internal %s in get_binary_array" % type(e).__name__
            info["bytes"] = b
            ok = allvalid and b is not None and b == exp and st.code_pkg.size == len(exp)
            if ok:
                nxt = out.program.statements[len(pre) + 1].code_pkg.address.int
                ok = nxt == len(exp)
        elif out.kind == "diag":
            ok = not allvalid
            b = None
        else:
            return True, info     # internal errors: C13
        if ok:
            return True, info
        env = {"kind": out.kind if b is not None or out.kind != "ok" else "internal", "b": b, "exp": exp, "vals": vals,
               "allvalid": allvalid, "length": length, "v0": vals[sym_pos[0]] if sym_pos else None,
               "nsym": len(sym_pos), "via_equ": via_equ, "directive": kind, "negzero": negzero,
               "cls0": classes[0] if classes else None}
        return ctx.known(PID, {"part": "list", "directive": kind, "single": length == 1, "via_equ": via_equ}, env), info
    return Ob(oid, body, timeout=(400 if len(sym_pos) > 3 else 90), tags={"part": "list", "directive": kind}, text="%s list len %d sym@%s %s" % (kind, length, sym_pos, classes))


def make_list_labels(kind, variant):
    """labels, label expressions and symbols defined AFTER use inside FCB/FDB lists (jump tables)"""
    oid = "C05:%s:labels:%s" % (kind, variant)
    width = 1 if kind == "FCB" else 2

    def body(ctx):
        t, o = ctx.lit("H4", "o")
        ctx.assume(o <= (200 if kind == "FCB" else 60000))
        tk, k = ctx.lit("D3" if kind == "FDB" else "D2", "k")
        if kind == "FCB":
            ctx.assume(k <= 20)
        items = {"plain": ["LB", "LA", tk, "7"], "expr": ["LB+%s" % tk, "LA-1", "K", "%s+1" % tk], "after": ["K", "LATER", "LB", "K+1"],
                 "trailing": ["LB", tk, ""], "first": ["LA", "1"]}[variant]
        n = len([x for x in items if x != ""])
        lines = [" ORG %s" % t, "K EQU 9", "LB NOP", "D %s %s" % (kind, ",".join(items)), "LA NOP", "LATER EQU 3"]
        out = assemble(lines)
        info = {"lines": lines, "outcome": out.describe()}
        lb, la = o, o + 1 + n * width
        vals = {"plain": [lb, la, k, 7], "expr": [lb + k, la - 1, 9, k + 1], "after": [9, 3, lb, 10], "trailing": [lb, k], "first": [la, 1]}[variant]
        allvalid = True
        exp = []
        for v in vals:
            ok1, bs = expected(kind, v)
            if not ok1:
                allvalid = False
            exp = exp + bs
        if out.kind in ("internal", "loop"):
            return True, info
        if out.kind == "diag":
            ok = not allvalid
        else:
            st = out.program.statements[3]
            try:
                b = stmt_bytes(st)
            except Exception as e:  # noqa: BLE001
                b = None
            info["bytes"] = b
            ok = allvalid and b is not None and b == exp and out.program.statements[4].code_pkg.address.int == la
        if ok:
            return True, info
        return ctx.known(PID, {"part": "list-labels", "directive": kind}, {"kind": out.kind, "variant": variant}), info
    return Ob(oid, body, timeout=120, tags={"part": "list-labels", "directive": kind}, text="%s list with labels / expressions / later symbols (%s)" % (kind, variant))


def make_rmb_sym(cls):
    def body(ctx):
        t, n = ctx.lit(cls, "n")
        lines = ["B RMB %s" % t, "E NOP"]
        out = assemble(lines)
        info = {"lines": lines, "outcome": out.describe()}
        if out.kind == "internal":
            return True, info
        if out.kind == "diag":
            ok = not ((0 <= n) and (n <= 65535))
        else:
            st = out.program.statements[0]
            add = st.code_pkg.additional
            ok = (0 <= n) and (n <= 65535) and st.code_pkg.size == n and add.int == 0 and add.hex_len() == 2 * n \
                and out.program.statements[1].code_pkg.address.int == n and st.code_pkg.op_code.hex_len() == 0 \
                and st.code_pkg.post_byte.hex_len() == 0
        if ok:
            return True, info
        return ctx.known(PID, {"part": "rmb"}, {"kind": out.kind, "n": n, "cls": cls}), info
    return Ob("C05:RMB:sym:%s" % cls, body, timeout=60, tags={"part": "rmb"}, text="RMB <%s>" % cls)


def make_rmb_conc(n, via):
    def body(ctx):
        lines = (["K EQU %d" % n, "B RMB K"] if via == "equ" else ["B RMB %s" % (("$%X" % n) if via == "hex" else str(n))]) + ["E NOP"]
        out = assemble(lines)
        info = {"lines": lines, "outcome": out.describe()}
        if out.kind != "ok":
            return ctx.known(PID, {"part": "rmb-conc"}, {"kind": out.kind, "n": n, "via": via}), info
        try:
            img = image(out.program)
        except Exception as e:  # noqa: BLE001 - accepted, but the image cannot be generated
            info["outcome"] = "accepted, then %s in get_binary_array" % type(e).__name__
            return ctx.known(PID, {"part": "rmb-conc"}, {"kind": "internal", "n": n, "via": via}), info
        ok = img == [0] * n + [0x12]
        info["image_len"] = len(img)
        if ok:
            return True, info
        return ctx.known(PID, {"part": "rmb-conc"}, {"kind": "ok", "n": n, "via": via, "len": len(img)}), info
    return Ob("C05:RMB:conc:%d:%s" % (n, via), body, timeout=60, tags={"part": "rmb-conc"}, text="RMB %d (%s)" % (n, via))


def make_nobytes(did, line_fn, text):
    def body(ctx):
        lines = ["A NOP"] + line_fn(ctx) + ["E NOP"]
        out = assemble(lines)
        info = {"lines": lines, "outcome": out.describe()}
        if out.kind != "ok":
            return ctx.known(PID, {"part": "nobytes", "case": did}, {"kind": out.kind}), info
        img = image(out.program)
        ok = img == [0x12, 0x12]
        for st in out.program.statements[1:-1]:
            if st.code_pkg.size != 0:
                ok = False
        info["image"] = img
        if ok:
            return True, info
        return ctx.known(PID, {"part": "nobytes", "case": did}, {"kind": "ok", "img": img}), info
    return Ob("C05:nobytes:" + did, body, timeout=60, tags={"part": "nobytes", "case": did}, text=text)


def make_nobytes2(did, line):
    """a directive that emits nothing, with a label / symbol / expression operand, between two NOPs: either rejected with
    a diagnostic or the image is exactly the two NOPs and the directive's size is 0"""
    def body(ctx):
        lines = ["Q EQU 3", "Q1 EQU 1", "A NOP", line, "E NOP"]
        out = assemble(lines)
        info = {"lines": lines, "outcome": out.describe()}
        if out.kind in ("diag", "internal", "loop"):
            return True, info                       # rejection is allowed here; internal errors are C13's
        try:
            img = image(out.program)
        except Exception as e:  # noqa: BLE001
            info["outcome"] = "accepted, then %s in get_binary_array" % type(e).__name__
            return False, info
        st = out.program.statements[3]
        ok = img == [0x12, 0x12] and st.code_pkg.size == 0 and out.program.statements[4].code_pkg.address.int == 1
        info["image"] = img
        if ok:
            return True, info
        return ctx.known(PID, {"part": "nobytes", "case": did}, {"kind": "ok", "img": img}), info
    return Ob("C05:nobytes2:" + did, body, timeout=60, tags={"part": "nobytes", "case": did}, text=line, r4=False)


PRINTABLE = [chr(c) for c in range(32, 127)]
DELIMS = ['"', "'", "/", ":", "#", "<", ">", "$", "%", "!", "&", "*", "(", "=", "?", "^", ".", "@", "+", "-", "["]
#          delimiters inside the documented operand character set (comma and ] excluded: list / bracket syntax)


def fcc_case(content, delim, comment=""):
    line = "S FCC %s%s%s%s" % (delim, content, delim, comment)
    out = assemble([line, "E NOP"])
    if out.kind != "ok":
        return out.kind, None
    try:
        b = stmt_bytes(out.program.statements[0])
    except Exception:  # noqa: BLE001
        return "internal", None
    nxt = out.program.statements[1].code_pkg.address.int
    if nxt != len(b):
        return "size", b
    return "ok", b


def make_fcc_enum(name, cases):
    """exhaustive native enumeration (no symbolic input): every case must emit exactly the characters"""
    def body(ctx):
        bad = []
        n = 0
        for content, delim, comment in cases:
            n += 1
            kind, b = fcc_case(content, delim, comment)
            exp = [ord(c) for c in content]
            if kind == "ok" and b == exp:
                continue
            if kind == "internal":
                continue                           # C13
            envd = {"kind": kind, "content": content, "delim": delim, "b": b, "comment": comment, "exp": exp}
            if not ctx.known(PID, {"part": "fcc"}, envd):
                bad.append((content, delim, comment, kind, b))
                if len(bad) > 3:
                    break
        info = {"cases": n, "bad": bad}
        return (len(bad) == 0), info
    ob = Ob("C05:FCC:enum:%s" % name, body, timeout=600, tags={"part": "fcc"}, text="FCC enumeration %s (%d cases)" % (name, len(cases)), r4=False)
    ob.native_only = True
    ob.ncases = len(cases)
    return ob


def fcc_cases(tier, seed):
    rnd = random.Random(seed + 5)
    groups = {}
    one = []
    for d in DELIMS:
        one.append(("", d, ""))
        for c in PRINTABLE:
            if c != d:
                one.append((c, d, ""))
    groups["len0-1"] = one
    two = []
    for d in DELIMS[:6]:
        chars = [c for c in PRINTABLE if c != d]
        if tier == "thorough":
            two += [(a + b, d, "") for a in chars for b in chars]
        else:
            special = [c for c in " ;,'\"/|#$%<>[]+-*.:@!?&^()=~\\_{}`" if c != d] + ["A", "z", "0"]
            two += [(a + b, d, "") for a in special for b in special]
    groups["len2"] = two
    corpus = []
    words = ["HELLO", "HELLO WORLD", "A  B", "A;B", "A ;B", "A; B", " A", "A ", "  ", " ; ", "A,B", "1,2,3", "#$%", "X+Y",
             "it's", 'say "hi"', "a/b", "a|b", "[x]", "<y>", "~", "A~B", "{}", "x" * 255, " " * 255, "ab " * 85,
             "A\tB", "\t", "TAB\t", ";" * 10, "A" * 254 + ";", "END", "FCC", "LABEL NOP", "  LDA #1", "; comment", "A ; comment"]
    for w in words:
        for d in DELIMS[:8]:
            if d not in w:
                corpus.append((w, d, ""))
                corpus.append((w, d, " ; trailing comment"))
                corpus.append((w, d, " ; the user%ss note %s x %s" % (d, d, d)))      # the delimiter character inside the comment
                corpus.append((w, d, "   "))
    for _ in range(200 if tier == "quick" else 2000):
        L = rnd.choice([3, 4, 7, 16, 40, 100, 255])
        d = rnd.choice(DELIMS)
        w = "".join(rnd.choice([c for c in PRINTABLE if c != d]) for _ in range(L))
        corpus.append((w, d, ""))
    groups["corpus"] = corpus
    return groups


def obligations(tier, seed):
    rnd = random.Random(seed + 3)
    obs = []
    full = tier == "thorough"
    for kind in ("FCB", "FDB"):
        for cls in (CLASSES if full else ["D5", "H4", "N5", "H2", "N3"]):
            obs.append(make_list(kind, 1, [0], [cls]))
            obs.append(make_list(kind, 2, [1], [cls]))
        obs.append(make_list(kind, 1, [0], ["D5"], via_equ=True))
        obs.append(make_list(kind, 2, [0], ["H4"], via_equ=True))
        obs.append(make_list(kind, 3, [0, 2], ["D5", "N5"], via_equ=True))
        obs.append(make_list(kind, 2, [0, 1], ["D5", "N5"]))
        obs.append(make_list(kind, 3, [0, 1, 2], ["H4", "D3", "N3"]))
        obs.append(make_list(kind, 3, [1], ["D5"]))
        obs.append(make_list(kind, 8, [0, 3, 7], ["D3", "H2", "N3"]))
        obs.append(make_list(kind, 8, [2, 5], ["D5", "H4"]))
        obs.append(make_list(kind, 64, [0, 63], ["D3", "H2"]))
        obs.append(make_list(kind, 64, [31], ["N5"]))
        if full:
            obs.append(make_list(kind, 8, [0, 1, 2, 3], ["D5", "H4", "N5", "B8"]))
            obs.append(make_list(kind, 64, [1, 17, 40, 62], ["D5", "H4", "N5", "D3"]))
            for _ in range(6):
                L = rnd.choice([2, 3, 5, 8, 13, 64])
                k = min(L, rnd.randint(1, 3))
                pos = sorted(rnd.sample(range(L), k))
                obs.append(make_list(kind, L, pos, [rnd.choice(CLASSES) for _ in pos]))
    for cls in ["D1", "D2", "D3", "D4", "D5", "D7", "H1", "H2", "H3", "H4", "H5", "B8", "B16", "N3"]:
        obs.append(make_rmb_sym(cls))
    for n in [0, 1, 2, 255, 256, 1000]:
        for via in ("dec", "hex", "equ"):
            obs.append(make_rmb_conc(n, via))
    def lit_line(fmt, cls):
        def f(ctx):
            t, v = ctx.lit(cls, "v")
            return [fmt % t]
        return f
    obs.append(make_nobytes("EQU", lit_line("K EQU %s", "H4"), "K EQU <H4>"))
    obs.append(make_nobytes("EQU-D5", lit_line("K EQU %s", "D5"), "K EQU <D5>"))
    obs.append(make_nobytes("SETDP", lit_line(" SETDP %s", "H2"), "SETDP <H2>"))
    obs.append(make_nobytes("SET", lit_line("K SET %s", "H2"), "K SET <H2>"))
    obs.append(make_nobytes("NAM", lambda ctx: [" NAM PROG"], "NAM PROG"))
    obs.append(make_nobytes("END", lambda ctx: [" END"], "END"))
    obs.append(make_nobytes("END-op", lambda ctx: [" END A"], "END A"))
    obs.append(make_nobytes("END-lit", lit_line(" END %s", "H4"), "END <H4>"))
    obs.append(make_nobytes("NAM-END", lambda ctx: [" NAM X", " SETDP 0", "K EQU 5", " END E"], "NAM/SETDP/EQU/END"))
    # the same directives with a label, a symbol or an expression as operand (accepted or rejected - never bytes)
    for did, ln in (("SETDP-label", " SETDP A"), ("SETDP-later-label", " SETDP E"), ("SETDP-expr", " SETDP E/256"), ("SETDP-sym", " SETDP Q"),
                    ("EQU-label", "K EQU A"), ("EQU-later-label", "K EQU E"), ("EQU-expr", "K EQU E+1"), ("EQU-sym", "K EQU Q"),
                    ("END-expr", " END A+1"), ("END-later", " END E"), ("NAM-label", " NAM A"), ("ORG-same", " ORG $0001"),
                    ("ORG-sym-same", " ORG Q1")):
        obs.append(make_nobytes2(did, ln))
    for kind in ("FCB", "FDB"):
        for variant in ("plain", "expr", "after", "trailing", "first"):
            obs.append(make_list_labels(kind, variant))
    for name, cases in fcc_cases(tier, seed).items():
        if len(cases) > 3000:
            for i in range(0, len(cases), 3000):
                obs.append(make_fcc_enum("%s-%d" % (name, i // 3000), cases[i:i + 3000]))
        else:
            obs.append(make_fcc_enum(name, cases))
    return obs


def gates(tier, seed):
    from .gates import assembler_gates
    return assembler_gates(tier, seed)
