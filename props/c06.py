"""C06 -- cassette images round-trip every file exactly (DESIGN 4/C06)."""
from vlib import oracle_cas as OC
from vlib.driver import Ob
from vlib.harness import install_m7
from . import files as F
from cocoasm.virtualfiles.cassette import CassetteFile
from cocoasm.virtualfiles.virtual_file_exceptions import VirtualFileValidationError

PID = "C06"
BOUNDS = ("lists of 0-3 files; data lengths {0,1,2,254,255,256,257,509,510,511,765} (+ 4096, 65535 thorough); EVERY data "
          "byte symbolic for lengths <= 16 (quick) / <= 257 (selected and thorough), otherwise the bytes at block "
          "boundaries / first / last symbolic and a distinct concrete filler elsewhere; load and entry addresses symbolic "
          "16 bit; file type symbolic 0-3, data type symbolic {$00,$FF}; names enumerated (length 0-12, both cases) plus names with ONE SYMBOLIC character over all of $21..$7E at "
          "position 0, 4, 7, 8 (beyond the 8 stored) and in a 2-character name. "
          "Second sentence: streams produced by the independent writer (vlib/oracle_cas.write) with enumerated leader "
          "lengths {1,2,127,128,300} and optional inter-block gaps, symbolic content, listed by the tool")
OUTSIDE = "more than 3 files per image; names with spaces / non-ASCII; more than one symbolic name character at a time; leader lengths are enumerated, not symbolic"
ASSUMPTIONS = ["M7: copy.deepcopy of the container's original_buffer replaced by a shallow copy (never read; re-checked by scan)"]

LENGTHS = [0, 1, 2, 254, 255, 256, 257, 509, 510, 511, 765]
NAMES = ["A", "HELLO", "hello", "ABCDEFGH", "ABCDEFGHIJKL", "MixEd1", "X1", ""]


def make(sid, specs, allsym=16, timeout=240, full=0):
    def body(ctx):
        install_m7()
        fl, descs = F.build(ctx, specs, allsym_limit=allsym, full_addr_index=full)
        cas = CassetteFile()
        cas.add_files(fl)
        buf = cas.get_buffer()
        info = {"files": [s.text() for s in specs], "image_len": len(buf)}
        for cf, d in zip(fl, descs):
            if len(cf.data) != len(d["data"]):
                info["fault"] = "writing the image modified the caller's data list"
                return ctx.known(PID, {"part": "roundtrip"}, {"n": len(specs), "lengths": [s.length for s in specs], "listed": -2,
                                                               "empty_index": len(specs), "kind": None, "stage": None}), info
        try:
            got = CassetteFile(buffer=buf[:]).list_files()
        except Exception as e:  # noqa: BLE001 - whatever the reader raises, the files were not listed
            got = None
            info["read_error"] = "%s: %s" % (type(e).__name__, e)
        if got is not None:
            info["listed"] = F.describe(got)
        ok = got is not None and F.same_list(got, descs)
        if ok:
            return True, info
        env = {"n": len(specs), "lengths": [s.length for s in specs], "names": [getattr(s.name, "label", s.name) for s in specs],
               "listed": len(got) if got is not None else -1, "empty_index": ([s.length for s in specs] + [0]).index(0),
               "kind": None, "stage": None}
        return ctx.known(PID, {"part": "roundtrip"}, env), info
    return Ob("C06:rt:" + sid, body, timeout=timeout, tags={"part": "roundtrip"}, text=" + ".join(s.text() for s in specs))


def make_repeat(sid, spec, timeout=300):
    """the same CoCoFile object stored twice in one list, then the list stored on a second tape: every copy complete"""
    def body(ctx):
        install_m7()
        fl, descs = F.build(ctx, [spec], allsym_limit=8)
        info = {"file": spec.text()}
        bufs = []
        for _round in range(2):
            cas = CassetteFile()
            cas.add_files([fl[0], fl[0]])
            bufs.append(cas.get_buffer())
        ok = True
        for b in bufs:
            try:
                got = CassetteFile(buffer=b[:]).list_files()
            except Exception as e:  # noqa: BLE001
                got = None
                info["read_error"] = "%s: %s" % (type(e).__name__, e)
            if got is None or not F.same_list(got, [descs[0], descs[0]]):
                ok = False
        if ok:
            return True, info
        return ctx.known(PID, {"part": "repeat"}, {"length": spec.length}), info
    return Ob("C06:repeat:" + sid, body, timeout=timeout, tags={"part": "repeat"}, text="%s stored twice, on two tapes" % spec.text())


def make_incremental(sid, specs, timeout=300):
    """one container object: add, list, add, list -- every listing shows everything stored so far"""
    def body(ctx):
        install_m7()
        fl, descs = F.build(ctx, specs, allsym_limit=8)
        cas = CassetteFile()
        ok = True
        info = {"files": [s.text() for s in specs]}
        for i, cf in enumerate(fl):
            cas.add_file(cf)
            try:
                got = cas.list_files()
            except Exception as e:  # noqa: BLE001
                got = None
                info["read_error"] = "%s: %s" % (type(e).__name__, e)
            if got is None or not F.same_list(got, descs[:i + 1]):
                ok = False
                info["failed_after"] = i
                break
        if ok:
            return True, info
        return ctx.known(PID, {"part": "incremental"}, {"n": len(specs)}), info
    return Ob("C06:incremental:" + sid, body, timeout=timeout, tags={"part": "incremental"}, text="add/list interleaved on one container: %s" % [s.text() for s in specs])


def make_foreign(sid, specs, leader, blank, gaps, chunk=255, allsym=16, timeout=240):
    """a well-formed stream from the independent writer, listed by the tool"""
    def body(ctx):
        install_m7()
        _fl, descs = F.build(ctx, specs, allsym_limit=allsym)
        buf = OC.write(descs, leader=leader, blank=blank, gaps=gaps, chunk=chunk)
        info = {"files": [s.text() for s in specs], "leader": leader, "blank": blank, "gaps": gaps, "chunk": chunk}
        try:
            got = CassetteFile(buffer=buf).list_files()
        except Exception as e:  # noqa: BLE001 - whatever the reader raises, the files were not listed
            got = None
            info["read_error"] = "%s: %s" % (type(e).__name__, e)
        if got is not None:
            info["listed"] = F.describe(got)
        ok = got is not None and F.same_list(got, descs)
        if ok:
            return True, info
        env = {"n": len(specs), "lengths": [s.length for s in specs], "listed": len(got) if got is not None else -1,
               "leader": leader, "gaps": gaps, "empty_index": ([s.length for s in specs] + [0]).index(0), "kind": None, "stage": None}
        return ctx.known(PID, {"part": "foreign"}, env), info
    return Ob("C06:foreign:" + sid, body, timeout=timeout, tags={"part": "foreign"},
              text="foreign leader=%d blank=%d gaps=%s chunk=%d: %s" % (leader, blank, gaps, chunk, " + ".join(s.text() for s in specs)))


def obligations(tier, seed):
    S = F.Spec
    obs = []
    full = tier == "thorough"
    obs.append(make("empty-list", []))
    for L in LENGTHS + ([4096, 65535] if full else []):
        obs.append(make("one:%d" % L, [S("PROG", L, "sym")], timeout=400 if L > 1000 else 240))
    for nm in NAMES:
        obs.append(make("name:%r" % nm, [S(nm, 3, "ml")]))
    for pos in (0, 4, 7, 8):
        obs.append(make("symname:%d" % pos, [S(F.SymName("ABCDEFGHIJ", pos), 3, "ml")], timeout=400))
    obs.append(make("symname:short", [S(F.SymName("AB", 1), 2, "basic")], timeout=400))
    obs.append(make("allsym:257", [S("BIG", 257, "sym", allsym=257)], timeout=400))
    obs.append(make("allsym:255", [S("BIG", 255, "ml", allsym=255)], timeout=400))
    obs.append(make("two:3+255", [S("ONE", 3, "sym"), S("TWO", 255, "ml")]))
    obs.append(make("two:256+1", [S("ONE", 256, "basic"), S("two", 1, "ascii")], full=1))
    obs.append(make("three:1+510+2", [S("A", 1, "ml"), S("B", 510, "data"), S("C", 2, "sym")], full=2))
    obs.append(make("three:0first", [S("E", 0, "ml"), S("B", 5, "ml"), S("C", 2, "ml")]))
    obs.append(make("three:0mid", [S("A", 4, "ml"), S("E", 0, "ml"), S("C", 2, "ml")]))
    obs.append(make("two:0last", [S("A", 4, "ml"), S("E", 0, "basic")]))
    obs.append(make("same-name", [S("DUP", 3, "ml"), S("DUP", 4, "ml")]))
    obs.append(make_repeat("600", S("GAME", 600, "ml")))
    obs.append(make_repeat("255", S("EXACT", 255, "sym")))
    obs.append(make_incremental("3", [S("ALPHA", 3, "ml"), S("BRAVO", 300, "ml"), S("CHARLIE", 2, "sym")]))
    if full:
        obs.append(make("allsym:511", [S("BIG", 511, "ml", allsym=511)], timeout=900))
        obs.append(make("three:765x3", [S("A", 765, "ml"), S("B", 765, "basic"), S("C", 765, "sym")], timeout=900))
    for leader in ([1, 2, 127, 128, 300] if full else [1, 128, 300]):
        for gaps in (False, True):
            obs.append(make_foreign("l%d-g%d" % (leader, gaps), [S("FOR", 300, "sym"), S("EIGN", 3, "ml")], leader, leader, gaps))
    obs.append(make_foreign("chunk100", [S("SMALLBLK", 256, "ml")], 128, 0, False, chunk=100))
    obs.append(make_foreign("chunk1", [S("TINY", 5, "ml")], 16, 0, True, chunk=1))
    obs.append(make_foreign("noblank", [S("NB", 255, "ml"), S("NB2", 256, "basic")], 64, 0, False))
    obs.append(make_foreign("markers", [S("MARK", 12, "ml")], 128, 128, True, chunk=4))
    return obs


def gates(tier, seed):
    from .gates import container_gates
    return container_gates(tier, seed)
