"""C07 -- disk images round-trip every file exactly, wherever its granules lie (DESIGN 4/C07)."""
import itertools
import random

from vlib import oracle_decb as OD
from vlib.driver import Ob
from vlib.harness import install_m7
from . import disk, files as F, c06
from cocoasm.virtualfiles.disk import DiskFile
from cocoasm.virtualfiles.virtual_file_exceptions import VirtualFileValidationError

PID = "C07"
BOUNDS = ("the C08 write scenarios (lengths around the 256/2304/4608 boundaries, ML/BASIC/ASCII, 1-3 files, names and "
          "extensions of different lengths/cases, one SYMBOLIC name character over a-z / 0-9 / A-Z at positions 0, 3, 5, 7, 8, "
          "default and permuted fill orders) read back through the tool's own "
          "DiskFile.list_files; second sentence: images built by the independent writer (vlib/oracle_decb.write_image) "
          "on ENUMERATED granule chains (quick: 40 seeded layouts always including non-adjacent, descending and "
          "track-17-straddling chains; thorough: all 4,556 ordered granule pairs and a seeded sample of triples) with "
          "symbolic bytes/addresses, listed by the tool; every link VALUE a chain can hold (quick: 0,1,31-34,48,63-67; "
          "thorough: all 68) for ML, BASIC and ASCII files; fill orders whose chains link into granule 0 and granules 62-67")
OUTSIDE = "chain layouts are enumerated (a symbolic granule number used as an index is realised value by value)"
ASSUMPTIONS = c06.ASSUMPTIONS


def read_back(buf):
    try:
        return DiskFile(buffer=buf).list_files(), None
    except VirtualFileValidationError as e:
        return None, str(e)
    except Exception as e:  # noqa: BLE001 - any other exception: the files were not listed either
        return None, "%s: %s" % (type(e).__name__, e)


def make(sid, specs, order, allsym, full_index, orders):
    def body(ctx):
        buf, descs, err = disk.write(ctx, specs, order, allsym, full_index, orders)
        info = {"files": [s.text() for s in specs], "order": order, "error": err}
        env = {"lengths": [s.length for s in specs], "kinds": [s.kind for s in specs], "names": [getattr(s.name, "label", s.name) for s in specs],
               "order": order, "err": err, "streams": [len(OD.expected_stream(d)) for d in descs], "stage": "write",
               "adjacent": None, "tailroom": None, "rerr": None, "near_end": False}
        if buf is None:
            return ctx.known(PID, {"part": "roundtrip"}, env), info
        got, rerr = read_back(buf[:])
        info["read_error"] = rerr
        if got is not None:
            info["listed"] = F.describe(got)
        ok = got is not None and F.same_list(got, descs, check_ext=True, ml_only_addrs=True)
        if ok:
            return True, info
        env["stage"] = "read"
        env["rerr"] = rerr
        try:
            chains = [OD.chain(buf, e["first"])[0] for e in OD.entries(buf)]
            if len(chains) == len(descs):
                env["near_end"] = _near_end(chains, descs)
                info["chains"] = chains
        except Exception:  # noqa: BLE001 - a structurally broken image is C08's subject; the class stays unmatched
            pass
        return ctx.known(PID, {"part": "roundtrip"}, env), info
    return Ob("C07:rt:" + sid, body, timeout=(1500 if "big" in sid or "55000" in sid else 300), tags={"part": "roundtrip"}, text="%s [%s]" % (" + ".join(s.text() for s in specs), order))


def _near_end(chains, descs):
    """some granule of a chain lies so close to the physical end of the image that fewer bytes remain behind its start
    than the file still has to deliver from there on"""
    for ch, d in zip(chains, descs):
        remaining = len(OD.expected_stream(d))
        for g in ch:
            if OD.IMAGE_SIZE - OD.gran_offset(g) < remaining:
                return True
            remaining -= OD.GRAN
    return False


def make_foreign(sid, specs, chains, allsym=8, slots=None, deleted=()):
    def body(ctx):
        install_m7()
        _fl, descs = F.build(ctx, specs, allsym_limit=allsym, full_addr_index=0)
        buf = OD.write_image(descs, chains, slots=slots, deleted=deleted)
        got, rerr = read_back(buf)
        info = {"files": [s.text() for s in specs], "chains": chains, "read_error": rerr}
        if got is not None:
            info["listed"] = F.describe(got)
        ok = got is not None and F.same_list(got, descs, check_ext=True, ml_only_addrs=True)
        if ok:
            return True, info
        adjacent = all(all(OD.gran_offset(b) == OD.gran_offset(a) + OD.GRAN for a, b in zip(c, c[1:])) for c in chains)
        env = {"chains": chains, "adjacent": adjacent, "rerr": rerr, "err": None, "order": None, "lengths": [s.length for s in specs], "stage": "read",
               "tailroom": [OD.IMAGE_SIZE - OD.gran_offset(ch[0]) for ch in chains], "near_end": _near_end(chains, descs),
               "kinds": [s.kind for s in specs], "streams": [len(OD.expected_stream(d)) for d in descs]}
        return ctx.known(PID, {"part": "foreign"}, env), info
    return Ob("C07:foreign:" + sid, body, timeout=300, tags={"part": "foreign"},
              text="foreign image chains=%s: %s" % (chains, " + ".join(s.text() for s in specs)))


def layouts(tier, seed):
    rnd = random.Random(seed + 23)
    pairs = [(33, 34), (34, 33), (35, 30), (0, 67), (67, 0), (10, 11), (11, 10), (32, 33), (66, 67), (1, 0), (16, 50)]
    if tier == "thorough":
        pairs = [(a, b) for a in range(68) for b in range(68) if a != b]
    else:
        while len(pairs) < 26:
            a, b = rnd.sample(range(68), 2)
            if (a, b) not in pairs:
                pairs.append((a, b))
    triples = [(32, 33, 34), (34, 33, 32), (35, 30, 2), (67, 0, 33), (5, 40, 6)]
    for _ in range(9 if tier == "quick" else 300):
        triples.append(tuple(rnd.sample(range(68), 3)))
    return pairs, triples


def obligations(tier, seed):
    S = F.Spec
    orders = disk.fill_orders(seed)
    obs = [make(sid, specs, order, allsym, fi, orders) for (sid, specs, order, allsym, fi) in disk.scenarios(tier, seed)]
    # one SYMBOLIC character of the name (letters of either case, digits) at the first, a middle, the 8th and a truncated position
    for sid, sn in (("lower0", F.SymName("ABCDEFGHIJ", 0, 97, 122)), ("lower7", F.SymName("ABCDEFGHIJ", 7, 97, 122)),
                    ("digit3", F.SymName("ABCDEFGH", 3, 48, 57)), ("upper5", F.SymName("abcdefgh", 5, 65, 90)),
                    ("upper8", F.SymName("ABCDEFGHIJ", 8, 65, 90)), ("short", F.SymName("AB", 1, 97, 122))):
        if tier == "thorough" or sid in ("lower0", "digit3", "upper8"):
            obs.append(make("symname:" + sid, [S(sn, 5, "ml")], "default", 16, 0, orders))
    pairs, triples = layouts(tier, seed)
    for i, (a, b) in enumerate(pairs):
        L = [2300, 2400, 4598, 2305, 2297][i % 5]
        kind = ["ml", "ml", "ml", "basic", "ml"][i % 5]
        obs.append(make_foreign("pair:%d-%d:%s%d" % (a, b, kind, L), [S("FOREIGN", L, kind, ext="BIN" if kind == "ml" else "BAS")], [[a, b]]))
    for (a, b, c) in triples:
        obs.append(make_foreign("triple:%d-%d-%d" % (a, b, c), [S("TRIPLE", 4700, "ml")], [[a, b, c]]))
    # every link VALUE a chain can hold, for every file kind (the reader takes ML/BASIC lengths from the preamble and ASCII
    # lengths from the allocation table, so the three kinds exercise different code on the same chain)
    targets = list(range(68)) if tier == "thorough" else [0, 1, 31, 32, 33, 34, 48, 63, 64, 65, 66, 67]
    for b in targets:
        a = 10 if b != 10 else 11
        c = 20 if b != 20 else 21
        for kind, L, ext in (("ascii", 5000, "TXT"), ("basic", 5000, "BAS"), ("ml", 4700, "BIN")):
            obs.append(make_foreign("link:%d-%d-%d:%s" % (a, b, c, kind), [S("LINKED", L, kind, ext=ext)], [[a, b, c]]))
        obs.append(make_foreign("link:%d-%d:ascii" % (a, b), [S("LINK2", 2400, "ascii", ext="TXT")], [[a, b]]))
        obs.append(make_foreign("first:%d:ascii" % b, [S("FIRSTG", 300, "ascii", ext="TXT"), S("SECOND", 20, "ml")], [[b], [a]]))
    obs.append(make_foreign("two-files", [S("ONE", 2400, "ml"), S("TWO", 100, "ascii", ext="TXT")], [[40, 3], [41]]))
    obs.append(make_foreign("single-gran", [S("ONE", 100, "ml")], [[27]]))
    obs.append(make_foreign("holes", [S("FIRST", 30, "ml"), S("THIRD", 40, "ml"), S("FOURTH", 10, "basic", ext="BAS")], [[5], [9], [40]],
                            slots=[0, 2, 7], deleted=[1, 3]))
    obs.append(make_foreign("hole-first", [S("ONLY", 30, "ml")], [[12]], slots=[4], deleted=[0, 1]))
    obs.append(make_foreign("last-slot", [S("LAST", 30, "ml")], [[66]], slots=[71]))
    obs.append(make_foreign("interleaved", [S("ONE", 2400, "ml"), S("TWO", 2400, "basic", ext="BAS")], [[10, 12], [11, 13]]))
    return obs


gates = c06.gates
