"""C08 -- every disk image written is a structurally valid Disk BASIC filesystem (DESIGN 4/C08)."""
from vlib import oracle_decb as OD
from vlib.driver import Ob
from . import disk, files as F, c06

PID = "C08"
BOUNDS = ("files written to an initially blank image through the real DiskFile.add_file: ML data lengths around the "
          "256/2304/4608 boundaries (quick: 14 lengths, thorough: every length within 10 of a granule multiple up to 3 "
          "granules, and 65535), BASIC and ASCII kinds, 1-3 files, names/extensions of different lengths and cases, the "
          "default and 3-6 permuted granule fill orders (incl. non-adjacent, descending, track-17-straddling chains); "
          "data bytes symbolic (all for <= 16/64 bytes, the bytes at sector/granule boundaries otherwise), load/entry "
          "addresses symbolic 16 bit.  Oracle: vlib/oracle_decb.fsck on the written buffer only")
OUTSIDE = "more than 3 files per image (C15 treats occupancy); disks that already contain files (C09, C15)"
ASSUMPTIONS = c06.ASSUMPTIONS


def make(sid, specs, order, allsym, full_index, orders):
    def body(ctx):
        buf, descs, err = disk.write(ctx, specs, order, allsym, full_index, orders)
        info = {"files": [s.text() for s in specs], "order": order, "error": err}
        env = {"lengths": [s.length for s in specs], "kinds": [s.kind for s in specs], "names": [s.name for s in specs],
               "exts": [s.ext for s in specs], "order": order, "err": err,
               "streams": [len(OD.expected_stream(d)) for d in descs]}
        if buf is None:
            return ctx.known(PID, {"part": "fsck"}, dict(env, fault="write-error")), info
        fault = None
        try:
            files = OD.fsck(buf, [OD.expected_stream(d) for d in descs])
        except OD.FsError as e:
            fault = str(e)
            files = None
        if fault is None:
            for (e, grans, st), d in zip(files, descs):
                nm, ex = OD.name11(d["name"], d["ext"])
                if e["name"] != nm or e["ext"] != ex or e["ftype"] != d["ftype"] or e["ascii"] != d["dtype"]:
                    fault = "directory entry fields"
            info["chains"] = [g for (_e, g, _s) in files]
        if fault is None and not OD.untouched_outside(buf, files):
            fault = "byte outside allocated granules / FAT / directory differs from a formatted image"
        info["fault"] = fault
        if fault is None:
            return True, info
        return ctx.known(PID, {"part": "fsck"}, dict(env, fault=fault)), info
    return Ob("C08:" + sid, body, timeout=(1500 if "big" in sid or "55000" in sid else 300), tags={"part": "fsck"}, text="%s [%s]" % (" + ".join(s.text() for s in specs), order))


def make_overflow(sid, lengths):
    """a file sequence that does NOT fit, stored the way both front ends do (VirtualFile.add_coco_file ...
    save_virtual_file): either nothing is written, or what is written is a consistent image"""
    def body(ctx):
        from vlib.harness import MemFS, install_m7
        from cocoasm.virtualfiles.virtual_file import VirtualFile, VirtualFileType
        from cocoasm.virtualfiles.source_file import SourceFile, SourceFileType
        from . import files as F
        install_m7()
        specs = [F.Spec("F%d" % i, n, "ml") for i, n in enumerate(lengths)]
        fl, descs = F.build(ctx, specs, allsym_limit=1)
        info = {"lengths": lengths}
        with MemFS({}) as fs:
            vf = VirtualFile(SourceFile("full.dsk", file_type=SourceFileType.BINARY), VirtualFileType.DISK)
            err = None
            try:
                vf.open_virtual_file()
                for cf in fl:
                    vf.add_coco_file(cf)
                vf.save_virtual_file()
            except Exception as e:  # noqa: BLE001
                err = "%s: %s" % (type(e).__name__, e)
            written = fs.files.get("full.dsk")
        info["error"] = err
        if written is None:
            return True, info                     # refused, nothing written
        try:
            OD.fsck(written, None)
        except OD.FsError as e:
            info["fault"] = "an image was written although the files do not fit, and it is inconsistent: %s" % e
            return ctx.known(PID, {"part": "overflow"}, {"fault": str(e)}), info
        return True, info
    ob = Ob("C08:overflow:" + sid, body, timeout=600, tags={"part": "overflow"}, text="files of %s bytes through VirtualFile.save_virtual_file (do not fit)" % (lengths,), r4=False)
    ob.native_only = True
    ob.ncases = 1
    return ob


def obligations(tier, seed):
    orders = disk.fill_orders(seed)
    obs = [make(sid, specs, order, allsym, fi, orders) for (sid, specs, order, allsym, fi) in disk.scenarios(tier, seed)]
    obs.append(make_overflow("8x9gran", [20000] * 8))            # the 8th file finds 5 granules, needs 9
    obs.append(make_overflow("68+1", [2294] * 69))               # the 69th file finds none
    obs.append(make_overflow("big+small", [150000, 10000, 300]))
    return obs


gates = c06.gates
