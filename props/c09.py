"""C09 -- adding or appending a file never disturbs files already stored (DESIGN 4/C09)."""
from vlib import oracle_decb as OD
from vlib.driver import Ob
from vlib.harness import MemFS, install_m7
from . import files as F, c06, c15, disk
from cocoasm.values import NumericValue
from cocoasm.virtualfiles.cassette import CassetteFile
from cocoasm.virtualfiles.coco_file import CoCoFile
from cocoasm.virtualfiles.disk import DiskFile
from cocoasm.virtualfiles.source_file import SourceFile, SourceFileType
from cocoasm.virtualfiles.virtual_file import VirtualFile, VirtualFileType
from cocoasm.virtualfiles.virtual_file_exceptions import VirtualFileValidationError

PID = "C09"
BOUNDS = ("(a) save / re-open / add rounds through the real VirtualFile (what --append does) on the in-memory host FS: "
          "1-2 files stored, then one or two append rounds, cassette and disk, boundary lengths of C06/C07, symbolic "
          "contents and addresses: the final listing is old files (identical, in order) then new ones; (b) inductive disk "
          "step from a symbolic allocation table / directory: add_file changes no allocation entry, directory slot or data "
          "byte that was in use (C15 pre-state; data bytes of used granules modelled as the formatted value); (c) kind "
          "recognition: every image the tool writes re-opens as the same kind - cassette images of >= 161,280 bytes with "
          "the bytes at the would-be directory positions symbolic, and written disk images; (d) histories whose single "
          "allocations walk 10-27 entries of the default granule fill order (incl. its repeated entries)")
OUTSIDE = "more than 2 append rounds (the tool rebuilds the image from the listing each time); more than 3 files"
ASSUMPTIONS = c06.ASSUMPTIONS

KIND = {"cas": VirtualFileType.CASSETTE, "dsk": VirtualFileType.DISK}


def make_append(sid, kind, rounds, allsym=8, full=0, native=False):
    """rounds: list of lists of Spec; round 0 creates the image, later rounds append"""
    def body(ctx):
        install_m7()
        flat = [s for r in rounds for s in r]
        fl, descs = F.build(ctx, flat, allsym_limit=allsym, full_addr_index=full)
        info = {"kind": kind, "rounds": [[s.text() for s in r] for r in rounds]}
        with MemFS({}) as fs:
            k = 0
            for ri, r in enumerate(rounds):
                vf = VirtualFile(SourceFile("img", file_type=SourceFileType.BINARY), KIND[kind])
                try:
                    vf.open_virtual_file()
                    for _ in r:
                        vf.add_coco_file(fl[k])
                        k += 1
                    vf.save_virtual_file(append_mode=(ri > 0))
                except Exception as e:  # noqa: BLE001
                    info["error"] = "round %d: %s: %s" % (ri, type(e).__name__, e)
                    env = {"stage": "round%d" % ri, "lengths": [s.length for s in flat], "kinds": [s.kind for s in flat],
                           "listed": -1, "n": len(flat), "empty_index": ([s.length for s in flat] + [0]).index(0),
                           "kind": kind}
                    return ctx.known(PID, {"part": "append"}, env), info
            final = VirtualFile(SourceFile("img", file_type=SourceFileType.BINARY))
            try:
                final.open_virtual_file()
            except Exception as e:  # noqa: BLE001
                info["error"] = "re-open: %s: %s" % (type(e).__name__, e)
                env = {"stage": "reopen", "lengths": [s.length for s in flat], "kinds": [s.kind for s in flat],
                       "listed": -1, "n": len(flat), "empty_index": ([s.length for s in flat] + [0]).index(0),
                       "kind": kind, "part": "append"}
                return ctx.known(PID, {"part": "append"}, env), info
            got = final.list_files()
            info["listed"] = F.describe(got)
            info["sniffed"] = str(final.virtual_file_type)
            ok = final.virtual_file_type == KIND[kind] and F.same_list(got, descs, ml_only_addrs=(kind == "dsk"))
        if ok:
            return True, info
        env = {"stage": "final", "lengths": [s.length for s in flat], "kinds": [s.kind for s in flat], "listed": len(got),
               "n": len(flat), "empty_index": ([s.length for s in flat] + [0]).index(0), "kind": kind, "part": "append"}
        return ctx.known(PID, {"part": "append"}, env), info
    ob = Ob("C09:append:%s:%s" % (kind, sid), body, timeout=400, tags={"part": "append"},
            text="%s: %s" % (kind, " | ".join(" + ".join(s.text() for s in r) for r in rounds)))
    if native:
        ob.native_only = True       # concrete scenario replayed natively (the whole-image tape scan is too slow traced)
        ob.r4 = False
    return ob


def make_same_object(sid, kind, specs):
    """one container object: add, list, add, list (no save / re-open in between)"""
    def body(ctx):
        install_m7()
        fl, descs = F.build(ctx, specs, allsym_limit=6, full_addr_index=0)
        cont = CassetteFile() if kind == "cas" else DiskFile()
        info = {"kind": kind, "files": [s.text() for s in specs]}
        ok = True
        for i, cf in enumerate(fl):
            cont.add_file(cf)
            try:
                got = cont.list_files()
            except Exception as e:  # noqa: BLE001
                got = None
                info["read_error"] = "%s: %s" % (type(e).__name__, e)
            if got is None or not F.same_list(got, descs[:i + 1], ml_only_addrs=(kind == "dsk")):
                ok = False
                info["failed_after"] = i
                break
        if ok:
            return True, info
        return ctx.known(PID, {"part": "same-object"}, {"kind": kind}), info
    return Ob("C09:same-object:%s:%s" % (kind, sid), body, timeout=400, tags={"part": "same-object"},
              text="%s container: add/list interleaved: %s" % (kind, [s.text() for s in specs]))


def make_untouched(sid, length, order_name, orders, first_idx, slot_idx, kind="ml"):
    """(b) from the C15 symbolic pre-state: nothing that was in use changes"""
    order = orders[order_name]

    def body(ctx):
        install_m7()
        from cocoasm.virtualfiles.disk import DiskConstants
        order_list = c15.uniq_order(order if order is not None else DiskConstants.GRANULE_FILL_ORDER)
        buf = OD.blank_image()
        gflag, gbyte = {}, {}
        for pos, g in enumerate(order_list):
            if pos < first_idx:
                gflag[g], gbyte[g] = 1, [c15.USED_FAT, 0x00, 0x07, 0xC9][pos % 4]
            elif pos == first_idx:
                gflag[g], gbyte[g] = 0, 0xFF
            else:
                gbyte[g], gflag[g] = c15.sym_fat_entry(ctx, "g%d" % g)
        for g in range(68):
            if g not in gflag:
                gflag[g], gbyte[g] = 1, c15.USED_FAT
            buf[OD.FAT + g] = gbyte[g]
        sflag = []
        for s in range(72):
            u = 1 if s < slot_idx else 0 if s == slot_idx else ctx.int("s%d" % s, 0, 1)
            sflag.append(u)
            buf[OD.DIR + 32 * s] = 0xFF - u * (0xFF - c15.USED_DIR)
        before = buf[:]
        data = [(j * 3 + 2) % 250 for j in range(length)]
        cf = CoCoFile(name="NEW", extension="BIN", type=NumericValue(2), data_type=NumericValue(0),
                      load_addr=NumericValue(0x3000), exec_addr=NumericValue(0x3010), data=data)
        d = DiskFile(buffer=buf, granule_fill_order=order)
        try:
            d.add_file(cf)
        except VirtualFileValidationError as e:
            return True, {"error": str(e)}          # failing cleanly is C15's subject
        after = d.buffer
        from crosshair.tracers import NoTracing
        with NoTracing():
            cand = [i for i in range(len(after)) if after[i] is not before[i]]
        newg = [i - OD.FAT for i in cand if OD.FAT <= i < OD.FAT + 68]     # allocation entries written by this add
        ok = True
        bad = None

        def where_bad(i):
            if OD.FAT <= i < OD.FAT + 68:
                return ("used allocation entry", i - OD.FAT) if gflag[i - OD.FAT] != 0 else None
            if OD.FAT + 68 <= i < OD.DIR:
                return None                                # unused tail of the allocation sector
            if OD.DIR <= i < OD.DIR + 72 * 32:
                return ("used directory slot", (i - OD.DIR) // 32) if sflag[(i - OD.DIR) // 32] != 0 else None
            for g in newg:
                if OD.gran_offset(g) <= i < OD.gran_offset(g) + OD.GRAN:
                    return None
            return ("byte outside the newly allocated granules", i)

        with NoTracing():
            # concrete bytes outside the table sectors are classified natively; anything involving a symbolic value
            # (the allocation / directory flags) goes through the solver below
            symbolic = []
            for i in cand:
                a, b = after[i], before[i]
                if OD.FAT <= i < OD.DIR + 72 * 32 or type(a) is not int or type(b) is not int:
                    symbolic.append(i)
                elif a != b:
                    inside = any(OD.gran_offset(g) <= i < OD.gran_offset(g) + OD.GRAN for g in newg)
                    if not inside and bad is None:
                        ok, bad = False, ("byte outside the newly allocated granules", i)
        if ok:
            for i in symbolic:
                if after[i] == before[i]:
                    continue
                w = where_bad(i)
                if w is not None:
                    ok, bad = False, w
                    break
        info = {"new_granules": newg, "bad": bad, "length": length}
        if ok:
            return True, info
        env = {"badkind": bad[0], "stream": length + 10, "newg": newg, "order": order_name}
        return ctx.known(PID, {"part": "untouched"}, env), info
    return Ob("C09:untouched:%s" % sid, body, timeout=300, tags={"part": "untouched"},
              text="add_file(%d) from symbolic FAT/dir [%s, first free @%d, slot %d]: nothing in use changes" % (length, order_name, first_idx, slot_idx))


def make_sniff_big_cassette(sid, sizes, nsym):
    """(c) a tool-written cassette image of >= 161,280 bytes must re-open as a cassette.  Data is zero-filled except
    nsym symbolic bytes placed where DiskFile.list_files would read directory entries."""
    def body(ctx):
        install_m7()
        # concrete layout pass: write the same files with payload value = 1000 + 100000*file + offset, so any element
        # >= 1000 of the probe image identifies the data byte stored there
        probe = CassetteFile()
        probe.add_files([CoCoFile(name="Z%d" % i, extension="BIN", type=NumericValue(2), data_type=NumericValue(0),
                                  load_addr=NumericValue(0x1000), exec_addr=NumericValue(0x1000),
                                  data=[1000 + 100000 * i + j for j in range(n)], gaps=NumericValue(0))
                         for i, n in enumerate(sizes)])
        pbuf = probe.get_buffer()
        info = {"sizes": sizes, "image_len": len(pbuf)}
        short = len(pbuf) < OD.IMAGE_SIZE
        files = [[0] * n for n in sizes]
        marks = {}
        want = [OD.DIR + 32 * k for k in range(72)]
        for w in want:
            if w < len(pbuf) and pbuf[w] >= 1000:
                marks[w] = ((pbuf[w] - 1000) // 100000, (pbuf[w] - 1000) % 100000)
        info["dir_positions_on_payload"] = len(marks)
        for w in [w for w in want if w in marks][:nsym]:
            i, off = marks[w]
            files[i][off] = ctx.int("d%d" % w, 0, 255)
        cf = [CoCoFile(name="Z%d" % i, extension="BIN", type=NumericValue(2), data_type=NumericValue(0),
                       load_addr=NumericValue(0x1000), exec_addr=NumericValue(0x1000), data=files[i], gaps=NumericValue(0))
              for i in range(len(sizes))]
        with MemFS({}) as fs:
            vf = VirtualFile(SourceFile("big.cas", file_type=SourceFileType.BINARY), VirtualFileType.CASSETTE)
            vf.open_virtual_file()
            for c in cf:
                vf.add_coco_file(c)
            vf.save_virtual_file()
            again = VirtualFile(SourceFile("big.cas", file_type=SourceFileType.BINARY))
            try:
                again.open_virtual_file()
                info["sniffed"] = str(again.virtual_file_type)
                info["listed"] = len(again.list_files())
            except Exception as e:  # noqa: BLE001
                info["sniffed"] = "error " + type(e).__name__
                info["listed"] = -1
            ok = info["sniffed"] == str(VirtualFileType.CASSETTE) and info["listed"] == len(sizes)
        if ok:
            return True, info
        env = {"sniffed": info["sniffed"], "listed": info["listed"], "image_len": len(pbuf)}
        return ctx.known(PID, {"part": "sniff"}, env), info
    return Ob("C09:sniff:%s" % sid, body, timeout=900, tags={"part": "sniff"},
              text="cassette image of files %s (zero filled, %d symbolic bytes at would-be directory positions) re-opens as a cassette" % (sizes, nsym), r4=False)


def make_sniff_disk(sid, specs):
    def body(ctx):
        install_m7()
        fl, descs = F.build(ctx, specs, allsym_limit=8, full_addr_index=0)
        with MemFS({}) as fs:
            vf = VirtualFile(SourceFile("x.dsk", file_type=SourceFileType.BINARY), VirtualFileType.DISK)
            vf.open_virtual_file()
            for c in fl:
                vf.add_coco_file(c)
            vf.save_virtual_file()
            again = VirtualFile(SourceFile("x.dsk", file_type=SourceFileType.BINARY))
            try:
                again.open_virtual_file()
                sn = again.virtual_file_type
            except Exception as e:  # noqa: BLE001
                sn = "error %s" % e
        info = {"sniffed": str(sn)}
        if sn == VirtualFileType.DISK:
            return True, info
        env = {"sniffed": str(sn), "lengths": [s.length for s in specs], "kinds": [s.kind for s in specs]}
        return ctx.known(PID, {"part": "sniff-disk"}, env), info
    return Ob("C09:sniffdisk:%s" % sid, body, timeout=300, tags={"part": "sniff-disk"}, text="written disk %s re-opens as a disk" % [s.text() for s in specs])


def obligations(tier, seed):
    S = F.Spec
    full = tier == "thorough"
    orders = disk.fill_orders(seed)
    obs = []
    for kind in ("cas", "dsk"):
        ext = "BIN"
        obs.append(make_append("1+1", kind, [[S("ONE", 3, "ml")], [S("TWO", 5, "ml")]]))
        obs.append(make_append("1+1+1", kind, [[S("ONE", 255, "ml")], [S("TWO", 256, "ml")], [S("THREE", 1, "ml")]]))
        obs.append(make_append("2+1", kind, [[S("ONE", 2, "ml"), S("TWO", 300, "ml")], [S("THREE", 4, "ml")]]))
        obs.append(make_append("same-name", kind, [[S("DUP", 2, "ml")], [S("DUP", 3, "ml")]]))
        obs.append(make_append("empty-then", kind, [[S("EMPTY", 0, "ml")], [S("TWO", 3, "ml")]], full=-1))
        obs.append(make_append("then-empty", kind, [[S("ONE", 3, "ml")], [S("EMPTY", 0, "ml")]], full=-1, allsym=2, native=(kind == "dsk")))
        if kind == "dsk":
            obs.append(make_append("granule-edge", kind, [[S("ONE", 2294, "ml")], [S("TWO", 2300, "ml")]]))
            obs.append(make_append("trailer-edge", kind, [[S("ONE", 2296, "ml")], [S("TWO", 100, "ml")], [S("THREE", 2298, "ml")]]))
            obs.append(make_append("trailer-edge2", kind, [[S("ONE", 4600, "ml"), S("TWO", 2295, "ml")], [S("THREE", 50, "ml")]]))
            obs.append(make_append("basic+ascii", kind, [[S("BAS", 20, "basic", ext="BAS")], [S("TXT", 30, "ascii", ext="TXT")]]))
        else:
            obs.append(make_append("types", kind, [[S("BAS", 20, "basic")], [S("DAT", 30, "data")], [S("SYM", 4, "sym")]]))
        if full:
            obs.append(make_append("big", kind, [[S("ONE", 4603, "ml"), S("TWO", 510, "ml")], [S("THREE", 765, "ml")], [S("FOUR", 9, "ml")]]))
    for kind in ("cas", "dsk"):
        if kind == "dsk":
            # histories whose single allocations walk long stretches of the granule fill order (incl. its repeated entries)
            obs.append(make_append("walk-13+10", kind, [[S("A", 5000, "ml"), S("B", 9000, "ml"), S("C", 12000, "ml")], [S("D", 21000, "ml")]], allsym=2))
            obs.append(make_append("walk-27", kind, [[S("A", 60000, "ml")], [S("B", 30, "ml")]], allsym=2))
            obs.append(make_append("walk-10+14+rest", kind, [[S("A", 21000, "basic", ext="BAS")], [S("B", 30000, "ml"), S("C", 7000, "ascii", ext="TXT")],
                                                            [S("D", 40000, "ml")]], allsym=1, native=True))
        obs.append(make_same_object("3", kind, [S("ALPHA", 3, "ml"), S("BRAVO", 300, "ml"), S("CHARLIE", 2500, "ml")]))
    import random
    rnd = random.Random(seed + 41)
    for oname in ["default", "perm0", "straddle"] + (["reversed", "perm1"] if full else []):
        for length in [10, 2297, 2300, 4600, 4700]:
            for _ in range(2 if not full else 8):
                lo = 56 if length > 4000 else 0       # three-granule files: only the last fill positions stay symbolic
                obs.append(make_untouched("%s:%d:%d" % (oname, length, _), length, oname, orders, rnd.randrange(lo, 60), rnd.randrange(72)))
    obs.append(make_sniff_big_cassette("zeros-3", [59002, 60000, 60000], 3))
    obs.append(make_sniff_big_cassette("zeros-0", [59002, 60000, 60000], 0))
    obs.append(make_sniff_big_cassette("small", [300, 20], 0))
    obs.append(make_sniff_big_cassette("mid-93k", [40000, 50000], 0))
    obs.append(make_sniff_big_cassette("mid-120k", [60000, 58000], 2))
    obs.append(make_sniff_disk("one", [S("ONE", 5, "ml")]))
    obs.append(make_sniff_disk("three", [S("ONE", 5, "ml"), S("BAS", 2400, "basic", ext="BAS"), S("TXT", 10, "ascii", ext="TXT")]))
    obs.append(make_sniff_disk("none", []))
    return obs


gates = c06.gates
