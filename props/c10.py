"""C10 -- an existing target file is never modified unless append applies to it (DESIGN 4/C10)."""
from vlib import oracle_cas as OC, oracle_decb as OD
from vlib.driver import Ob
from vlib.harness import MemFS, install_m7, uninstall_m7
from . import cli, c06
from cocoasm.values import NumericValue
from cocoasm.virtualfiles.cassette import CassetteFile
from cocoasm.virtualfiles.coco_file import CoCoFile
from cocoasm.virtualfiles.disk import DiskFile

PID = "C10"
BOUNDS = ("matrix {--to_bin, --to_cas, --to_dsk} x {append, no append} x pre-existing target {absent, empty, tool-written "
          "cassette, tool-written disk, raw binary, 1-8 SYMBOLIC bytes (the solver searches for content that is "
          "mis-recognised), cassette image >= 161,280 bytes} through assembler.main and file_util.main on the in-memory "
          "host FS, plus pairs of consecutive invocations; the program's origin/operand symbolic; further pre-existing "
          "targets: formatted empty disk, disk with only deleted entries, well-formed disk with a byte >= $80 in a name, "
          "disk and cassette written by the independent writers, raw bytes containing a tape header marker")
OUTSIDE = "an empty existing file may be treated either way (not an image, but nothing to lose); the real host file system"
ASSUMPTIONS = c06.ASSUMPTIONS

SRC = [" NAM NEWPRG\n", " ORG $2000\n", "S LDA #$12\n", " RTS\n"]


def _cf(name, n, seedv=1):
    return CoCoFile(name=name, extension="BIN", type=NumericValue(2), data_type=NumericValue(0), load_addr=NumericValue(0x3000),
                    exec_addr=NumericValue(0x3000), data=[(j * 7 + seedv) % 256 for j in range(n)], gaps=NumericValue(0))


_CACHE = {}


def prebuilt(kind):
    """concrete pre-existing contents (built natively once)"""
    if kind not in _CACHE:
        if kind == "cas":
            c = CassetteFile()
            c.add_file(_cf("OLD", 20))
            _CACHE[kind] = c.get_buffer()
        elif kind == "dsk":
            d = DiskFile()
            d.add_file(_cf("OLD", 20))
            _CACHE[kind] = d.get_buffer()
        elif kind == "dsk-empty":
            _CACHE[kind] = DiskFile().get_buffer()           # formatted, no files
        elif kind == "dsk-killed":
            # every directory entry deleted (first byte $00), allocation table all free: written by the independent writer
            _CACHE[kind] = OD.write_image([], [], deleted=[0, 1, 2])
        elif kind == "dsk-hibyte":
            # a well-formed disk whose one file name holds a Disk BASIC graphics character (byte >= $80)
            b = OD.write_image([{"name": "GAMEX", "ext": "BIN", "ftype": 2, "dtype": 0, "load": 0x3000, "exec": 0x3000,
                                 "data": [1, 2, 3, 4]}], [[5]])
            b[OD.DIR + 4] = 0x8F
            _CACHE[kind] = b
        elif kind == "dsk-foreign":
            b = OD.write_image([{"name": "ONE", "ext": "BIN", "ftype": 2, "dtype": 0, "load": 0x3000, "exec": 0x3000, "data": [7] * 3000},
                                {"name": "TWO", "ext": "BAS", "ftype": 0, "dtype": 0, "load": 0, "exec": 0, "data": [9] * 40}],
                               [[40, 3], [66]], slots=[2, 70], deleted=[0, 1])
            _CACHE[kind] = b
        elif kind == "cas-foreign":
            # written by the independent writer: gapped blocks, lower-case name, short leaders
            _CACHE[kind] = OC.write([{"name": "Hello", "ftype": 2, "dtype": 0, "load": 0x3000, "exec": 0x3000, "data": [5] * 300},
                                     {"name": "TXT", "ftype": 1, "dtype": 0xFF, "load": 0, "exec": 0, "data": [65] * 20}],
                                    leader=16, blank=2, gaps=False)
        elif kind == "raw":
            _CACHE[kind] = [0x86, 0x12, 0x39, 0x00, 0x55, 0x3C, 0x01, 0x02, 0xFF, 0x00] * 3
        elif kind == "rawhdr":
            # a raw binary that happens to contain the tape header marker $55 $3C $00 with nothing valid behind it:
            # neither a disk nor a cassette image
            _CACHE[kind] = [0x12, 0x39, 0x55, 0x3C, 0x00] + [0x41] * 40
        elif kind == "bigcasff":
            # a >= 161,280-byte tape whose byte at the first would-be directory position is $FF, the others ordinary data
            sizes = [59002, 60000, 60000]
            probe = CassetteFile()
            for i, n in enumerate(sizes):
                probe.add_file(CoCoFile(name="P%d" % i, extension="BIN", type=NumericValue(2), data_type=NumericValue(0),
                                        load_addr=NumericValue(0x1000), exec_addr=NumericValue(0x1000),
                                        data=[1000 + 100000 * i + j for j in range(n)], gaps=NumericValue(0)))
            pb = probe.get_buffer()
            datas = [[0x41] * n for n in sizes]
            first = 78848
            if pb[first] >= 1000:
                fi, off = (pb[first] - 1000) // 100000, (pb[first] - 1000) % 100000
                datas[fi][off] = 0xFF
            c = CassetteFile()
            for i, n in enumerate(sizes):
                c.add_file(CoCoFile(name="P%d" % i, extension="BIN", type=NumericValue(2), data_type=NumericValue(0),
                                    load_addr=NumericValue(0x1000), exec_addr=NumericValue(0x1000), data=datas[i],
                                    gaps=NumericValue(0)))
            _CACHE[kind] = c.get_buffer()
        elif kind == "bigcas":
            c = CassetteFile()
            for i, n in enumerate([59002, 60000, 60000]):
                c.add_file(CoCoFile(name="Z%d" % i, extension="BIN", type=NumericValue(2), data_type=NumericValue(0),
                                    load_addr=NumericValue(0x1000), exec_addr=NumericValue(0x1000), data=[0] * n,
                                    gaps=NumericValue(0)))
            _CACHE[kind] = c.get_buffer()
        elif kind == "bigcas7f":
            c = CassetteFile()
            for i, n in enumerate([59002, 60000, 60000]):
                c.add_file(CoCoFile(name="Y%d" % i, extension="BIN", type=NumericValue(2), data_type=NumericValue(0),
                                    load_addr=NumericValue(0x1000), exec_addr=NumericValue(0x1000), data=[0x41] * n,
                                    gaps=NumericValue(0)))
            _CACHE[kind] = c.get_buffer()
    return _CACHE[kind][:]


def is_cassette_image(b):
    try:
        return len(OC.parse(b)) >= 1
    except OC.TapeError:
        return False


def is_disk_image(b):
    if len(b) != OD.IMAGE_SIZE:
        return False
    try:
        OD.fsck(b, None)
        return True
    except OD.FsError:
        return False


def make(sid, front, switch, append, pre, nsym=0, twice=False, name=None):
    target = {"to_bin": "t.bin", "to_cas": "t.cas", "to_dsk": "t.dsk"}[switch]

    def body(ctx):
        install_m7()
        fsinit = {}
        if front == "asm":
            fsinit["p.asm"] = list(SRC) if name is None else list(SRC[1:])      # no NAM line: --name supplies the name
        else:
            c = CassetteFile()
            c.add_file(_cf("SRCFILE", 12, 9))
            fsinit["src.img"] = c.get_buffer()
        if pre == "absent":
            before = None
        elif pre == "empty":
            before = []
        elif pre == "sym":
            before = [ctx.int("x%d" % i, 0, 255) for i in range(nsym)]
        else:
            before = prebuilt(pre)
        if before is not None:
            fsinit[target] = before[:]
        pre_is_cas = pre in ("cas", "bigcas", "bigcas7f", "bigcasff", "cas-foreign")
        pre_is_dsk = pre.startswith("dsk")
        with MemFS(fsinit) as fs:
            runs = []
            for _ in range(2 if twice else 1):
                if front == "asm":
                    r = cli.run_assembler(append=append, **dict({switch: target}, **({"name": name} if name is not None else {})))
                else:
                    r = cli.run_file_util(append=append, **{switch: target})
                runs.append(r)
            after = fs.files.get(target)
            writes = list(fs.writes)
        r = runs[0]
        info = {"front": front, "switch": switch, "append": append, "pre": pre, "stdout": r.out[-200:], "exit": r.exit,
                "exc": r.exc, "writes": writes, "after_len": None if after is None else len(after)}
        may_modify = (before is None) or (append and ((switch == "to_cas" and pre_is_cas) or (switch == "to_dsk" and pre_is_dsk)
                                                       or (switch == "to_bin" and not pre_is_cas and not pre_is_dsk)))
        # accepted either way: an empty existing file; --to_bin --append onto something that is not a container image
        either = (pre == "empty" and append) or (switch == "to_bin" and append and not pre_is_cas and not pre_is_dsk)
        fault = None
        if r.exc:
            fault = "traceback: " + r.exc
        elif after is None and before is None and r.out.strip() != "" and name is not None:
            fault = None        # the save failed, said so, and created nothing: within the statement
        elif after is None:
            fault = "nothing written to a new path" if before is None else "target deleted"
        else:
            changed = not (before is not None and len(after) == len(before) and after == before)
            if changed and not may_modify and not either:
                fault = "target modified although append does not apply"
            elif not changed and before is not None and not may_modify and not either and r.out.strip() == "":
                fault = "refused silently"
            elif changed or before is None:
                # the file written must be a complete image of the requested kind
                if switch == "to_cas" and not is_cassette_image(after):
                    fault = "written cassette image malformed"
                elif switch == "to_dsk" and not is_disk_image(after):
                    fault = "written disk image malformed"
                elif switch == "to_cas" and pre_is_cas and len(OC.parse(after)) != len(OC.parse(before)) + (2 if twice else 1):
                    fault = "appended cassette does not hold old + new files"
            elif may_modify and not changed and before is not None and not either and r.out.strip() == "":
                # (a refusal that is explained and leaves the target untouched is within the statement: the target may
                # change ONLY when append applies - whether an append that applies must succeed is C09's subject)
                fault = "append applies but nothing was written and nothing was said"
        info["fault"] = fault
        if fault is None:
            return True, info
        env = {"fault": fault, "front": front, "switch": switch, "append": append, "pre": pre, "out": r.out}
        return ctx.known(PID, {"part": "matrix"}, env), info
    ob = Ob("C10:%s:%s:%s:%s%s%s%s" % (front, switch, "append" if append else "plain", pre, nsym or "", ":twice" if twice else "",
                                        (":name-%s" % "".join("%04x" % ord(c) for c in name[-2:])) if name is not None else ""), body,
            timeout=300, tags={"part": "matrix"}, text="%s --%s %s onto %s%s" % (front, switch, "--append" if append else "", pre, nsym or ""), r4=(pre == "sym"))
    if pre in ("bigcas", "bigcas7f", "bigcasff") or pre.startswith("dsk"):
        ob.native_only = True       # concrete scenario; scanning a 160-185 KB image under tracing is too slow
    return ob


def make_realfs(front, switch, append, pre, spelling):
    """the same matrix cell on the REAL host file system (no in-memory model), with the target path spelled in different
    ways: plain, ./x, sub/../x, absolute, ~/x (HOME pointing at the scratch directory)"""
    def body(ctx):
        import os
        import shutil
        import tempfile
        d = tempfile.mkdtemp(prefix="verif-c10-")
        old_cwd, old_home = os.getcwd(), os.environ.get("HOME")
        ext = {"to_bin": "bin", "to_cas": "cas", "to_dsk": "dsk"}[switch]
        real = os.path.join(d, "t." + ext)
        spelled = {"plain": "t." + ext, "dot": "./t." + ext, "updown": "sub/../t." + ext, "abs": real, "tilde": "~/t." + ext}[spelling]
        info = {"front": front, "switch": switch, "append": append, "pre": pre, "target": spelled}
        try:
            os.makedirs(os.path.join(d, "sub"))
            os.chdir(d)
            os.environ["HOME"] = d
            before = prebuilt(pre) if pre != "absent" else None
            if before is not None:
                with open(real, "wb") as f:
                    f.write(bytes(before))
            with open(os.path.join(d, "p.asm"), "w") as f:
                f.write("".join(SRC))
            c = CassetteFile()
            c.add_file(_cf("SRCFILE", 12, 9))
            with open(os.path.join(d, "src.img"), "wb") as f:
                f.write(bytes(c.get_buffer()))
            if front == "asm":
                r = cli.run_assembler(append=append, **{switch: spelled})
            else:
                r = cli.run_file_util(append=append, **{switch: spelled})
            after = list(open(real, "rb").read()) if os.path.exists(real) else None
            strays = sorted(x for x in os.listdir(d) if x not in ("sub", "p.asm", "src.img", "t." + ext))
        finally:
            os.chdir(old_cwd)
            if old_home is None:
                os.environ.pop("HOME", None)
            else:
                os.environ["HOME"] = old_home
            shutil.rmtree(d, ignore_errors=True)
        info.update({"stdout": r.out[-200:], "exc": r.exc, "strays": strays, "after_len": None if after is None else len(after)})
        pre_is_cas, pre_is_dsk = pre == "cas", pre == "dsk"
        may_modify = (before is None) or (append and ((switch == "to_cas" and pre_is_cas) or (switch == "to_dsk" and pre_is_dsk)))
        fault = None
        if r.exc:
            fault = "traceback: " + r.exc
        elif before is not None and after != before and not may_modify:
            fault = "existing target modified although append does not apply"
        elif before is not None and after is None:
            fault = "target deleted"
        elif before is None and after is None and spelling != "tilde" and r.out.strip() == "":
            fault = "nothing written and nothing said"
        info["fault"] = fault
        return fault is None, info
    ob = Ob("C10:realfs:%s:%s:%s:%s:%s" % (front, switch, "append" if append else "plain", pre, spelling), body, timeout=120,
            tags={"part": "realfs"}, text="real file system: %s --%s %s onto %s, target spelled %s" % (front, switch, "--append" if append else "", pre, spelling), r4=False)
    ob.native_only = True
    ob.ncases = 1
    return ob


def obligations(tier, seed):
    obs = []
    full = tier == "thorough"
    for spelling in ("plain", "dot", "updown", "abs", "tilde"):
        for front in ("asm", "fu"):
            obs.append(make_realfs(front, "to_cas", False, "cas", spelling))
            obs.append(make_realfs(front, "to_dsk", True, "cas", spelling))
            obs.append(make_realfs(front, "to_cas", True, "dsk", spelling))
            if full or spelling in ("plain", "tilde"):
                obs.append(make_realfs(front, "to_dsk", False, "dsk", spelling))
                obs.append(make_realfs(front, "to_bin", False, "cas", spelling))
                obs.append(make_realfs(front, "to_cas", True, "cas", spelling))
                obs.append(make_realfs(front, "to_cas", False, "absent", spelling))
    for front in ("asm", "fu"):
        for switch in ("to_bin", "to_cas", "to_dsk"):
            for append in (False, True):
                for pre in ("absent", "empty", "cas", "dsk", "raw", "bigcas"):
                    if pre == "bigcas" and not (switch == "to_cas" or full):
                        continue
                    obs.append(make(None, front, switch, append, pre))
                for n in ([1, 4, 8] if not full else [1, 2, 3, 4, 5, 6, 7, 8]):
                    obs.append(make(None, front, switch, append, "sym", nsym=n))
        obs.append(make(None, front, "to_cas", True, "cas", twice=True))
        obs.append(make(None, front, "to_cas", True, "absent", twice=True))
        obs.append(make(None, front, "to_cas", False, "absent", twice=True))
        obs.append(make(None, front, "to_cas", True, "bigcas7f"))
        obs.append(make(None, front, "to_dsk", True, "bigcasff"))
        obs.append(make(None, front, "to_dsk", False, "bigcasff"))
        for sw in ("to_bin", "to_cas", "to_dsk"):
            for ap in (False, True):
                obs.append(make(None, front, sw, ap, "rawhdr"))
        obs.append(make(None, front, "to_bin", False, "rawhdr", twice=True))
        if front == "asm":
            # a save that FAILS while writing (a --name character that does not fit in a byte) must leave the target as it was
            for nm in ("TW\u20acO", "CAF\u00c9", "\u0100"):
                obs.append(make(None, front, "to_cas", True, "cas", name=nm))
                obs.append(make(None, front, "to_dsk", True, "dsk", name=nm))
                obs.append(make(None, front, "to_cas", False, "absent", name=nm))
        for pre in ("dsk-empty", "dsk-killed", "dsk-hibyte", "dsk-foreign", "cas-foreign"):
            for sw in ("to_bin", "to_cas", "to_dsk"):
                for ap in ((False, True) if full or sw != "to_dsk" else (True,)):
                    obs.append(make(None, front, sw, ap, pre))
    return obs


gates = c06.gates
