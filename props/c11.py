"""C11 -- the saved image holds the assembled program, at its origin, under its name (DESIGN 4/C11)."""
from vlib import oracle_cas as OC, oracle_decb as OD
from vlib.driver import Ob
from vlib.harness import MemFS, assemble, image, install_m7
from . import cli, c06

PID = "C11"
BOUNDS = ("assembler.main on the in-memory host FS; program templates with symbolic origin (16 bit, also no ORG) and "
          "symbolic operand values, image sizes {3, 255, 256, 2300} via RMB/FCB padding; NAM / --name present or absent, "
          "names of 1-12 characters in both cases; each output switch alone and all combined; END with and without an "
          "operand.  The written files are judged by the independent oracles (O-CAS parse, O-DECB fsck), the raw binary "
          "by equality with the assembled image, AND listed by the tool's own reader (one file, same bytes); a symbolic "
          "16-bit word inside the image (tape sync pair, disk markers); END operand forms label, label+-k, constant")
OUTSIDE = "programs larger than a few KiB; --print/--symbols formatting"
ASSUMPTIONS = c06.ASSUMPTIONS


def norm(name):
    return name.upper()[:8].ljust(8)


def make(sid, nam, cli_name, switches, pad, end_operand, with_org=True, word=False):
    def body(ctx):
        install_m7()
        lines = []
        if nam is not None:
            lines.append(" NAM %s" % nam)
        o = 0
        if with_org:
            t, o = ctx.lit("H4", "o")
            ctx.assume(o + pad + 16 <= 65535)
            lines.append(" ORG %s" % t)
        tv, v = ctx.lit("H2", "v")
        lines.append("START LDA #%s" % tv)
        lines.append("ENTRY STA $0400")
        wlen = 0
        if word:
            # an arbitrary 16-bit word inside the image (incl. the tape sync pair $55 $3C and the disk markers $FF00)
            tw, _w = ctx.lit("H4", "w")
            lines.append(" LDX #%s" % tw)
            lines.append(" FDB %s" % tw)
            wlen = 5
        if pad:
            lines.append(" RMB %d" % pad)
        lines.append("LAST RTS")
        if end_operand is not None:
            lines.append(" END %s" % end_operand if end_operand else " END")
        ref = assemble(lines)
        info = {"lines": lines, "switches": switches}
        if not ref.ok:
            return True, dict(info, note="program rejected: " + ref.describe())
        img = image(ref.program)
        entry = {"START": o, "ENTRY": o + 2, "LAST": o + 5 + wlen + pad, None: o, "": o, "START+2": o + 2, "LAST-1": o + 4 + wlen + pad,
                 "$1234": 0x1234}[end_operand]
        want_name = nam if nam is not None else cli_name
        kw = {}
        for s in switches:
            kw[s] = {"to_bin": "out.bin", "to_cas": "out.cas", "to_dsk": "out.dsk"}[s]
        with MemFS({"p.asm": [l + "\n" for l in lines]}) as fs:
            r = cli.run_assembler(name=cli_name, **kw)
            files = dict(fs.files)
        info["stdout"] = r.out[-300:]
        info["exit"] = r.exit
        fault = None
        if r.exc or r.exit not in (None, 0):
            fault = "assembler failed: %s %s" % (r.exc, r.exit)
        if fault is None and "to_bin" in switches:
            if files.get("out.bin") != img:
                fault = "raw binary differs from the assembled image"
        if fault is None and "to_cas" in switches:
            if want_name is None:
                if "out.cas" in files:
                    fault = "cassette file created without a name"
            else:
                fault = check_cas(files.get("out.cas"), img, o, entry, want_name)
        if fault is None and "to_dsk" in switches:
            if want_name is None:
                if "out.dsk" in files:
                    fault = "disk file created without a name"
            else:
                fault = check_dsk(files.get("out.dsk"), img, o, entry, want_name)
        if fault is None and want_name is not None:
            fault = tool_lists(files, switches, img, want_name)
        info["fault"] = fault
        if fault is None:
            return True, info
        env = {"fault": fault, "end_operand": end_operand, "entry_is_origin": end_operand in (None, "", "START"),
               "nam": nam, "cli_name": cli_name, "switches": switches, "with_org": with_org}
        return ctx.known(PID, {"part": "save"}, env), info
    ob = Ob("C11:" + sid, body, timeout=(1200 if pad > 10000 else 300), tags={"part": "save"},
              text="NAM=%r --name=%r %s pad=%d END %r org=%s" % (nam, cli_name, "+".join(switches), pad, end_operand, with_org))
    if pad > 10000:
        ob.native_only = True       # a 52 KB image through the disk writer: concrete replay (too slow under tracing)
        ob.r4 = False
    return ob


def tool_lists(files, switches, img, name):
    """the tool's own reader (what file_util --list / --append use) sees the same program in every container written"""
    from cocoasm.virtualfiles.virtual_file import VirtualFile
    from cocoasm.virtualfiles.source_file import SourceFile, SourceFileType
    for sw, path in (("to_cas", "out.cas"), ("to_dsk", "out.dsk")):
        if sw not in switches or path not in files:
            continue
        with MemFS({path: list(files[path])}):
            try:
                vf = VirtualFile(SourceFile(path, file_type=SourceFileType.BINARY))
                vf.open_virtual_file()
                got = vf.list_files()
            except Exception as e:  # noqa: BLE001
                return "the tool cannot list the %s it wrote: %s: %s" % (path, type(e).__name__, e)
        if len(got) != 1:
            return "the tool lists %d files in the %s it wrote" % (len(got), path)
        if len(got[0].data) != len(img) or list(got[0].data) != list(img):
            return "the tool reads different program bytes back from the %s it wrote" % path
    return None


def check_cas(buf, img, origin, entry, name):
    if buf is None:
        return "no cassette file written"
    try:
        files = OC.parse(buf)
    except OC.TapeError as e:
        return "cassette image malformed: %s" % e
    if len(files) != 1:
        return "cassette holds %d files" % len(files)
    f = files[0]
    if OC.fold(f["name"]) != [ord(c) for c in norm(name)]:
        return "cassette file name"
    if f["ftype"] != 2 or f["dtype"] != 0:
        return "cassette file is not machine language"
    if f["data"] != img:
        return "cassette data differs from the image"
    if f["load"] != origin:
        return "cassette load address"
    if f["exec"] != entry:
        return "cassette entry address"
    return None


def check_dsk(buf, img, origin, entry, name):
    if buf is None:
        return "no disk file written"
    d = {"name": name, "ext": "BIN", "ftype": 2, "dtype": 0, "load": origin, "exec": entry, "data": img}
    try:
        files = OD.fsck(buf, None)
    except OD.FsError as e:
        return "disk image malformed: %s" % e
    if len(files) != 1:
        return "disk holds %d files" % len(files)
    e, grans, st = files[0]
    nm, _ex = OD.name11(name, "BIN")
    if e["name"] != nm or e["ftype"] != 2:
        return "disk directory entry name/type"
    exp = OD.ml_stream(d)
    if len(st) != len(exp):
        return "disk stream length"
    if st[:len(exp) - 5] != exp[:-5]:
        return "disk stream header/data (load address or image)"
    if st[-5:] != exp[-5:]:
        return "disk entry address"
    return None


def obligations(tier, seed):
    obs = []
    full = tier == "thorough"
    names = [("HELLO", None), ("hello", None), (None, "cliname"), (None, "ABCDEFGHIJKL"), ("A", "OTHER"), ("LONGNAME12", None),
             (None, None)]
    for i, (nam, cn) in enumerate(names):
        for sw in (["to_bin"], ["to_cas"], ["to_dsk"], ["to_bin", "to_cas", "to_dsk"]):
            if not full and i >= 3 and len(sw) == 1 and sw[0] != "to_cas":
                continue
            obs.append(make("n%d:%s" % (i, "+".join(sw)), nam, cn, sw, 0, None))
    for pad in ([250, 251, 2295] if not full else [0, 1, 249, 250, 251, 2294, 2295, 2296, 4600]):
        obs.append(make("pad%d" % pad, "PADDED", None, ["to_bin", "to_cas", "to_dsk"], pad, None))
    obs.append(make("pad52000", "BIGONE", None, ["to_dsk", "to_bin"], 52000, None))
    for endop in ["", "START", "ENTRY", "LAST", "START+2", "LAST-1", "$1234"]:
        obs.append(make("end:%s" % (endop or "none"), "ENDER", None, ["to_cas", "to_dsk"], 3, endop))
    obs.append(make("word", "WORDY", None, ["to_bin", "to_cas", "to_dsk"], 0, None, word=True))
    obs.append(make("word-pad", "WORDY", None, ["to_cas", "to_dsk"], 251, "ENTRY", word=True))
    obs.append(make("noorg", "NOORG", None, ["to_bin", "to_cas", "to_dsk"], 0, None, with_org=False))
    obs.append(make("noorg-end", "NOORG", None, ["to_cas"], 0, "ENTRY", with_org=False))
    return obs


gates = c06.gates
