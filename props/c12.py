"""C12 -- no accepted statement ever yields a malformed or silently truncated instruction (DESIGN 4/C12)."""
from vlib.driver import Ob
from . import stmt

PID = "C12"
BOUNDS = ("the C01 statement corpus with the value symbolic over the WHOLE spelling-class range (so #256..#99999, "
          "<$0100..<$FFFF, [$12], 70000, -129..-99999 are inside), plus the mutation grammar: modes the instruction "
          "lacks, wrong/unknown registers, doubled/missing separators and brackets, stray prefixes (props/stmt.py "
          "invalid_corpus); accepted => exactly one datasheet instruction of that mnemonic consuming all bytes, "
          "byte count == listing size, and the statement is valid per Appendix A; memory operands (plain, <, >, [ ]) behind "
          "a SETDP with a symbolic page: one complete instruction, byte count == listing size == address advance")
OUTSIDE = "random strings over the operand alphabet (only the enumerated mutation grammar); letter-case variants of register names"
ASSUMPTIONS = ["Appendix A of DESIGN.md fixes validity"]


def make(sh):
    def body(ctx):
        c = stmt.build(ctx, sh)
        if c.kind != "ok":
            return True, c.info          # rejected (diagnostic or internal error: the latter is C13's subject)
        ok = stmt.is_valid(sh, c.v) and stmt.wellformed(sh, c.b, c.size)
        if ok:
            return True, c.info
        return ctx.known(PID, sh.tags(), c.env), c.info
    return Ob("C12:" + sh.sid, body, timeout=40, tags=sh.tags(), text=sh.text())


def make_setdp(m, opfmt, vcls):
    """a memory operand behind a SETDP with a symbolic page: whatever the assumed direct page does to the choice of the
    form, an accepted statement is one complete instruction of that mnemonic whose byte count is the listing size"""
    from vlib.harness import assemble, stmt_bytes

    def body(ctx):
        td, dp = ctx.lit("H2", "dp")
        tv, v = ctx.lit(vcls, "v")
        lines = [" SETDP %s" % td, " %s %s" % (m, opfmt % tv), " NOP"]
        out = assemble(lines)
        info = {"lines": lines, "outcome": out.describe()}
        if out.kind != "ok":
            return True, info
        st = out.program.statements[1]
        b = stmt_bytes(st)
        info["bytes"], info["size"] = b, st.code_pkg.size
        d = stmt.decode(b)
        ok = d is not None and d.length == len(b) and d.op == stmt.canonical(m) and len(b) == st.code_pkg.size
        ok = ok and out.program.statements[2].code_pkg.address.int == st.code_pkg.address.int + len(b)
        if ok:
            return True, info
        return ctx.known(PID, {"m": m, "form": "setdp", "raw": opfmt}, {"kind": "ok", "b": b, "size": st.code_pkg.size, "v": v, "dp": dp}), info
    return Ob("C12:setdp:%s:%s:%s" % (m, opfmt % "v", vcls), body, timeout=60, tags={"m": m, "form": "setdp"}, text="SETDP <H2> / %s %s" % (m, opfmt % ("<%s>" % vcls)))


def obligations(tier, seed):
    obs = [make(sh) for sh in stmt.corpus(tier, seed) + stmt.invalid_corpus(tier, seed)]
    for m in (["LDA", "JMP", "STX", "LDY"] if tier == "quick" else ["LDA", "JMP", "STX", "LDY", "INC", "CMPU", "JSR", "STB", "CLR"]):
        for opfmt in ("<%s", "%s", ">%s", "[%s]"):
            for vcls in ("H4", "H2"):
                obs.append(make_setdp(m, opfmt, vcls))
    return obs


def gates(tier, seed):
    from .gates import assembler_gates
    return assembler_gates(tier, seed)
