"""C12 -- no accepted statement ever yields a malformed or silently truncated instruction (DESIGN 4/C12)."""
from vlib.driver import Ob
from . import stmt

PID = "C12"
BOUNDS = ("the C01 statement corpus with the value symbolic over the WHOLE spelling-class range (so #256..#99999, "
          "<$0100..<$FFFF, [$12], 70000, -129..-99999 are inside), plus the mutation grammar: modes the instruction "
          "lacks, wrong/unknown registers, doubled/missing separators and brackets, stray prefixes (props/stmt.py "
          "invalid_corpus); accepted => exactly one datasheet instruction of that mnemonic consuming all bytes, "
          "byte count == listing size, and the statement is valid per Appendix A")
OUTSIDE = "random strings over the operand alphabet (only the enumerated mutation grammar); letter-case variants of register names"
ASSUMPTIONS = ["Appendix A of DESIGN.md fixes validity"]


def make(sh):
    def body(ctx):
        c = stmt.build(ctx, sh)
        if c.kind != "ok":
            return True, c.info          # rejected (diagnostic or internal error: the latter is C13's subject)
        ok = stmt.is_valid(sh, c.v) and stmt.wellformed(sh, c.b, c.size)
        if ok:
            return True, c.info
        return ctx.known(PID, sh.tags(), c.env), c.info
    return Ob("C12:" + sh.sid, body, timeout=40, tags=sh.tags(), text=sh.text())


def obligations(tier, seed):
    return [make(sh) for sh in stmt.corpus(tier, seed) + stmt.invalid_corpus(tier, seed)]


def gates(tier, seed):
    from .gates import assembler_gates
    return assembler_gates(tier, seed)
