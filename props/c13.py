"""C13 -- assembly always terminates with output or a source-level diagnostic (DESIGN 4/C13)."""
from vlib.driver import Ob
from . import stmt

PID = "C13"
BOUNDS = ("statement corpus of C01/C12 incl. the mutation grammar, pseudo-op mutations (empty operand, unterminated "
          "string, stray punctuation), values symbolic over their spelling class; termination of the PCR sizing loop on "
          "the C03 templates (1-3 label,PCR statements, symbolic gaps) via the fix-point watchdog; INCLUDE of a missing "
          "file / cycle and the CLI exit status on the in-memory host file system")
OUTSIDE = "arbitrary random text; interpreter resource exhaustion"
ASSUMPTIONS = ["watchdog: more than #statements+1 evaluations of the sizing-loop condition proves divergence"]


def make(sh):
    def body(ctx):
        c = stmt.build(ctx, sh)
        if c.kind in ("ok", "diag"):
            return True, c.info
        return ctx.known(PID, sh.tags(), c.env), c.info
    return Ob("C13:" + sh.sid, body, timeout=40, tags=sh.tags(), text=sh.text())


def obligations(tier, seed):
    obs = [make(sh) for sh in stmt.corpus(tier, seed) + stmt.invalid_corpus(tier, seed)]
    obs += [make_line(sh) for sh in stmt.line_corpus(tier, seed)]
    return obs


def make_line(sh):
    """a mutated line between two valid statements that define/resolve the symbols the base lines use"""
    from vlib.harness import assemble

    def body(ctx):
        lines = ["MSG EQU $1000", "K EQU 5", "B EQU 7", sh.raw, "ENDL NOP"]
        out = assemble(lines)
        info = {"lines": lines, "outcome": out.describe()}
        if out.kind in ("ok", "diag"):
            return True, info
        env = {"kind": out.kind, "exc": out.exc_name, "site": out.site, "line": sh.raw}
        return ctx.known(PID, {"form": "line"}, env), info
    return Ob("C13:line:%r" % (sh.raw,), body, timeout=40, tags={"form": "line", "raw": sh.raw}, text=repr(sh.raw))
