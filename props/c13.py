"""C13 -- assembly always terminates with output or a source-level diagnostic (DESIGN 4/C13)."""
from vlib.driver import Ob
from . import stmt

PID = "C13"
BOUNDS = ("statement corpus of C01/C12 incl. the mutation grammar, pseudo-op mutations (empty operand, unterminated "
          "string, stray punctuation), values symbolic over their spelling class; termination of the PCR sizing loop on "
          "the C03 templates (1-3 label,PCR statements, symbolic gaps) via the fix-point watchdog; INCLUDE of a missing "
          "file / cycle and the CLI exit status on the in-memory host file system; 14 EQU definition graphs (self "
          "loops, rings, chains into rings, rings through expressions, labels, undefined) x 25 use sites x 2 orders and "
          "seeded random lines, by enumeration with a wall-clock limit")
OUTSIDE = "arbitrary random text; interpreter resource exhaustion"
ASSUMPTIONS = ["watchdog: more than #statements+1 evaluations of the sizing-loop condition proves divergence"]


def make(sh):
    def body(ctx):
        c = stmt.build(ctx, sh)
        if c.kind in ("ok", "diag"):
            return True, c.info
        return ctx.known(PID, sh.tags(), c.env), c.info
    return Ob("C13:" + sh.sid, body, timeout=40, tags=sh.tags(), text=sh.text())


def _outputs(program):
    from vlib.harness import outputs
    return outputs(program)


def obligations(tier, seed):
    obs = [make(sh) for sh in stmt.corpus(tier, seed) + stmt.invalid_corpus(tier, seed)]
    obs += [make_line(sh) for sh in stmt.line_corpus(tier, seed)]
    obs += termination_obligations(tier, seed)
    obs += cli_obligations(tier, seed)
    obs += include_obligations()
    obs += random_line_obligations(tier, seed)
    obs += definition_graph_obligations(tier, seed)
    return obs


def definition_graph_obligations(tier, seed):
    """programs whose EQU definitions refer to one another (self loops, rings, chains into rings, rings through
    expressions, definitions through labels) x every kind of use site: always an image or a diagnostic, never a hang"""
    from vlib.harness import assemble
    graphs = {
        "self": ["S EQU S"],
        "ring2": ["S EQU T", "T EQU S"],
        "ring3": ["S EQU T", "T EQU U", "U EQU S"],
        "chain-into-ring": ["S EQU A1", "A1 EQU A2", "A2 EQU A1"],
        "ring-expr": ["S EQU T+1", "T EQU S+1"],
        "self-expr": ["S EQU S+1"],
        "chain3": ["S EQU T", "T EQU U", "U EQU 5"],
        "chain-label": ["S EQU T", "T EQU HERE"],
        "label-expr": ["S EQU HERE+2"],
        "expr-of-expr": ["S EQU T+1", "T EQU 2*3"],
        "neg": ["S EQU -5"],
        "undefined": ["S EQU NOWHERE"],
        "undefined-expr": ["S EQU NOWHERE+1"],
        "dup-ring": ["S EQU T", "T EQU S", "T EQU 5"],
    }
    uses = ["LDA S", "LDX #S", "LDA #S", "LDA S,X", "LEAX S,PCR", "LDA [S]", "LDA [S,Y]", "FCB S", "FDB S", "RMB S", "LDA S+1", "LDX #S-1",
            "LDA S*2,U", "FDB S+1", "BRA S", "LBSR S", "LDA <S", "LDA >S", "JMP [S,PCR]", "FCB 1,S", "ORG S", "SETDP S", "Z EQU S", "END S", ""]
    out = []
    for gname, defs in graphs.items():
        def body(ctx, defs=defs, gname=gname):
            bad = []
            for use in uses:
                for order in (0, 1):
                    body_lines = ["HERE NOP"] + ([" " + use] if use and not use.startswith("Z ") else ([use] if use else [])) + ["THERE NOP"]
                    lines = (defs + body_lines) if order == 0 else (body_lines + defs)
                    o = assemble(lines, wall_limit=10)
                    if o.kind == "diag" or (o.kind == "ok" and _outputs(o.program) is None):
                        continue
                    if ctx.known(PID, {"part": "defgraph"}, {"kind": o.kind, "exc": o.exc_name, "site": o.site, "use": use, "graph": gname}):
                        continue
                    bad.append((lines, o.describe()))
                if len(bad) > 3:
                    break
            return len(bad) == 0, {"graph": gname, "bad": bad}
        ob = Ob("C13:defgraph:" + gname, body, timeout=900, tags={"part": "defgraph"},
                text="EQU definition graph %s x %d use sites x 2 orders (enumeration)" % (defs, len(uses)), r4=False)
        ob.native_only = True
        ob.ncases = len(uses) * 2
        out.append(ob)
    return out


ALPHABET = "ABXYDUSPCRabxyz019 \t;,#$%<>[]+-*/'\"@:.()=!?&^_"


def random_line_obligations(tier, seed):
    """bug hunting by enumeration (NOT a solver verdict): seeded random lines over the source alphabet, alone and
    embedded in a valid program; every outcome must be an image or a diagnostic"""
    import random
    from vlib.harness import assemble
    from vlib import shapes as S
    rnd = random.Random(seed * 7 + 3)
    mnems = S.MNEMONICS + S.PSEUDO
    nb, per = (4, 750) if tier == "quick" else (40, 2500)
    out = []
    for b in range(nb):
        lines = []
        for _ in range(per):
            style = rnd.random()
            if style < 0.4:
                op = "".join(rnd.choice(ALPHABET) for _ in range(rnd.randint(0, 8)))
                lines.append("%s %s %s" % (rnd.choice(["", "L1", "A", "X9"]), rnd.choice(mnems), op))
            elif style < 0.7:
                lines.append("".join(rnd.choice(ALPHABET) for _ in range(rnd.randint(0, 14))))
            else:
                base = rnd.choice(stmt.BASE_LINES)
                s = list(stmt.render(*base))
                for _k in range(rnd.randint(1, 3)):
                    pos = rnd.randrange(len(s) + 1)
                    if rnd.random() < 0.5 and s:
                        del s[min(pos, len(s) - 1)]
                    else:
                        s.insert(pos, rnd.choice(ALPHABET))
                lines.append("".join(s))

        def body(ctx, lines=lines):
            bad = []
            for ln in lines:
                for progl in ([ln], ["MSG EQU $1000", "K EQU 5", "START NOP", "LOOP NOP", ln, "ENDL NOP"]):
                    o = assemble(progl, wall_limit=20)
                    if o.kind == "diag" or (o.kind == "ok" and _outputs(o.program) is None):
                        continue
                    if ctx.known(PID, {"part": "random"}, {"kind": o.kind, "exc": o.exc_name, "site": o.site, "line": ln}):
                        continue
                    bad.append((ln, o.describe()))
                    break
                if len(bad) > 4:
                    break
            return len(bad) == 0, {"lines": len(lines), "bad": bad}
        ob = Ob("C13:random:%d" % b, body, timeout=900, tags={"part": "random"}, text="%d seeded random lines (enumeration)" % per, r4=False)
        ob.native_only = True
        ob.ncases = per * 2
        out.append(ob)
    return out


def include_obligations():
    """INCLUDE of something that cannot be read, or of itself, must end in a diagnostic (never a traceback)"""
    from vlib.harness import MemFS, assemble
    cases = {
        "missing": ({}, ["A NOP", " INCLUDE nothere.asm"]),
        "directory": ({"lib": IsADirectoryError(21, "Is a directory", "lib")}, [" INCLUDE lib"]),
        "unreadable": ({"x.asm": PermissionError(13, "Permission denied", "x.asm")}, [" INCLUDE x.asm"]),
        "not-a-dir": ({"a.asm/b.asm": NotADirectoryError(20, "Not a directory", "a.asm/b.asm")}, [" INCLUDE a.asm/b.asm"]),
        "nested-missing": ({"a.asm": ["C NOP\n", " INCLUDE b.asm\n"]}, [" INCLUDE a.asm"]),
        "cycle": ({"a.asm": [" INCLUDE b.asm\n"], "b.asm": ["X NOP\n", " INCLUDE a.asm\n"]}, [" INCLUDE a.asm"]),
        "bad-line-inside": ({"a.asm": ["C NOP\n", " FROB 1\n"]}, [" INCLUDE a.asm"]),
        "bad-symbol-inside": ({"a.asm": ["C LDA UNDEF\n"]}, [" INCLUDE a.asm", " NOP"]),
    }
    out = []
    for name, (fsmap, lines) in cases.items():
        def body(ctx, fsmap=fsmap, lines=lines):
            with MemFS(dict(fsmap)):
                o = assemble(lines)
            info = {"outcome": o.describe()}
            if o.kind == "diag":
                return True, info
            return ctx.known(PID, {"part": "include"}, {"kind": o.kind, "exc": o.exc_name}), info
        out.append(Ob("C13:include:" + name, body, timeout=60, tags={"part": "include"}, text="INCLUDE case " + name, r4=False))
    return out


def termination_obligations(tier, seed):
    """every C03 template (branches, label,PCR forward/backward/nested, symbolic gaps) must end: outcome != loop/internal"""
    from . import c03, prog as _prog
    out = []
    for ob in c03.obligations(tier, seed):
        tid = ob.oid[4:]
        tpl = _prog.Template(tid, ob.items)

        def body(ctx, tpl=tpl, tid=tid):
            r = _prog.run(ctx, tpl)
            info = {"lines": r.lines, "outcome": r.out.describe()}
            if r.out.kind in ("ok", "diag"):
                return True, info
            env = {"kind": r.out.kind, "exc": r.out.exc_name, "site": r.out.site, "tpl": tid.split(":")[0]}
            env.update(r.vals)
            return ctx.known(PID, {"part": "termination", "tpl": tid.split(":")[0]}, env), info
        out.append(Ob("C13:term:" + tid, body, timeout=(500 if tid.startswith("multi") else 120), tags={"part": "termination", "tpl": tid.split(":")[0]}, text=tpl.text))
    return out


def cli_obligations(tier, seed):
    """assembler.main on the in-memory host FS: a diagnostic => exit status != 0 and no output file created or modified"""
    from vlib.harness import MemFS
    from . import cli
    progs = {
        "undefined": [" ORG $1000", " LDA NOWHERE", " RTS"],
        "bad-mnemonic": [" NAM X", " FROB 1"],
        "bad-operand": [" NAM X", " LDA #$12345"],
        "dup-label": [" NAM X", "L NOP", "L NOP"],
        "bad-mode": [" NAM X", " STA #1"],
        "missing-include": [" NAM X", " INCLUDE gone.asm"],
        "include-cycle": [" NAM X", " INCLUDE p.asm"],
        "far-branch": [" NAM X", "A BRA B", " RMB 200", "B NOP"],
        "empty-operand": [" NAM X", " RMB"],
        "unterminated": [" NAM X", ' FCC "abc'],
    }
    out = []
    for name, lines in progs.items():
        for pre in ("absent", "present"):
            def body(ctx, lines=lines, pre=pre):
                fsinit = {"p.asm": [l + "\n" for l in lines]}
                if pre == "present":
                    for t in ("o.bin", "o.cas", "o.dsk"):
                        fsinit[t] = [1, 2, 3]
                with MemFS(fsinit) as fs:
                    r = cli.run_assembler(to_bin="o.bin", to_cas="o.cas", to_dsk="o.dsk", name="CLI", append=True)
                    writes = list(fs.writes)
                    left = {t: fs.files.get(t) for t in ("o.bin", "o.cas", "o.dsk")}
                info = {"exit": r.exit, "exc": r.exc, "writes": writes, "stdout": r.out[-200:]}
                untouched = all((v is None) if pre == "absent" else (v == [1, 2, 3]) for v in left.values())
                ok = r.exc is None and r.exit not in (None, 0) and not writes and untouched and r.out.strip() != ""
                if ok:
                    return True, info
                return ctx.known(PID, {"part": "cli"}, {"exit": r.exit, "exc": r.exc, "writes": writes}), info
            ob = Ob("C13:cli:%s:%s" % (name, pre), body, timeout=60, tags={"part": "cli"}, text="assembler.main on %r, outputs %s" % (lines, pre), r4=False)
            out.append(ob)
    return out


def make_line(sh):
    """a mutated line between two valid statements that define/resolve the symbols the base lines use"""
    from vlib.harness import assemble

    def body(ctx):
        lines = ["MSG EQU $1000", "K EQU 5", "B EQU 7", "START NOP", "LOOP NOP", sh.raw, "ENDL NOP"]
        out = assemble(lines, wall_limit=20)        # concrete text: a hang inside a library call counts as non-termination
        info = {"lines": lines, "outcome": out.describe()}
        if out.kind == "diag":
            return True, info
        if out.kind == "ok":
            from vlib.harness import outputs
            bad = outputs(out.program)              # image, listing and symbol table of an accepted program
            if bad is None:
                return True, info
            info["outcome"] = "accepted, then %s while generating the outputs" % type(bad[0]).__name__
            env = {"kind": "internal", "exc": type(bad[0]).__name__, "site": bad[1], "line": sh.raw}
            return ctx.known(PID, {"form": "line"}, env), info
        env = {"kind": out.kind, "exc": out.exc_name, "site": out.site, "line": sh.raw}
        return ctx.known(PID, {"form": "line"}, env), info
    return Ob("C13:line:%r" % (sh.raw,), body, timeout=40, tags={"form": "line", "raw": sh.raw}, text=repr(sh.raw))


def gates(tier, seed):
    from .gates import assembler_gates
    return assembler_gates(tier, seed)
