"""C14 -- every cassette image written is a well-formed CoCo tape stream (DESIGN 4/C14)."""
from vlib import oracle_cas as OC
from vlib.driver import Ob
from vlib.harness import install_m7
from . import files as F
from . import c06
from cocoasm.virtualfiles.cassette import CassetteFile

PID = "C14"
BOUNDS = c06.BOUNDS.split("Second sentence")[0] + ("; the written buffer is checked by the independent verifier only "
         "(vlib/oracle_cas.parse): framing, block types, lengths, checksums of every block, 15-byte namefile layout, "
         "leaders, data blocks <= 255 bytes concatenating to the data, EOF block; the tool's own reader is not consulted")
OUTSIDE = c06.OUTSIDE
ASSUMPTIONS = c06.ASSUMPTIONS


def wellformed(buf, descs):
    """O-CAS verdict on a written image (bool-like)"""
    try:
        files = OC.parse(buf)
    except OC.TapeError:
        return False
    if len(files) != len(descs):
        return False
    for f, d in zip(files, descs):
        if OC.fold(f["name"]) != OC.fold(OC.name_bytes(d["name"])):
            return False
        if f["ftype"] != d["ftype"] or f["dtype"] != d["dtype"]:
            return False
        if f["load"] != d["load"] or f["exec"] != d["exec"]:
            return False
        if f["gap"] != 0x00 and f["gap"] != 0xFF:
            return False
        if len(f["data"]) != len(d["data"]) or f["data"] != d["data"]:
            return False
        blocks = f["blocks"]
        # leader before the namefile block and before the first block after it
        if OC.leader_before(buf, blocks[0][0]) < 1 or OC.leader_before(buf, blocks[1][0]) < 1:
            return False
        for (_start, btype, blen) in blocks[1:-1]:
            if btype != 1 or blen < 1 or blen > 255:
                return False
        if blocks[-1][1] != 0xFF:
            return False
    return True


def make(sid, specs, allsym=16, timeout=240, full=0):
    def body(ctx):
        install_m7()
        fl, descs = F.build(ctx, specs, allsym_limit=allsym, full_addr_index=full)
        cas = CassetteFile()
        cas.add_files(fl)
        buf = cas.get_buffer()
        info = {"files": [s.text() for s in specs], "image_len": len(buf)}
        ok = wellformed(buf, descs)
        if ok:
            return True, info
        env = {"n": len(specs), "lengths": [s.length for s in specs], "names": [s.name for s in specs]}
        return ctx.known(PID, {"part": "written"}, env), info
    return Ob("C14:w:" + sid, body, timeout=timeout, tags={"part": "written"}, text=" + ".join(s.text() for s in specs))


def make_repeat(sid, spec):
    """the same file object written twice into one image and the list written to a second image: all four copies whole"""
    def body(ctx):
        install_m7()
        fl, descs = F.build(ctx, [spec], allsym_limit=8)
        ok = True
        for _round in range(2):
            cas = CassetteFile()
            cas.add_files([fl[0], fl[0]])
            if not wellformed(cas.get_buffer(), [descs[0], descs[0]]):
                ok = False
        if ok:
            return True, {"file": spec.text()}
        return ctx.known(PID, {"part": "repeat"}, {"length": spec.length}), {"file": spec.text()}
    return Ob("C14:repeat:" + sid, body, timeout=300, tags={"part": "repeat"}, text="%s written twice, to two images" % spec.text())


def obligations(tier, seed):
    S = F.Spec
    obs = []
    full = tier == "thorough"
    obs.append(make("empty-list", []))
    for L in c06.LENGTHS + ([4096, 65535] if full else []):
        obs.append(make("one:%d" % L, [S("PROG", L, "sym")], timeout=400 if L > 1000 else 240))
    for nm in c06.NAMES:
        obs.append(make("name:%r" % nm, [S(nm, 3, "ml")]))
    obs.append(make("allsym:300", [S("BIG", 300, "sym", allsym=300)], timeout=400))
    obs.append(make("allsym:255", [S("BIG", 255, "ml", allsym=255)], timeout=400))
    obs.append(make("allsym:256", [S("BIG", 256, "ml", allsym=256)], timeout=400))
    obs.append(make("two:3+255", [S("ONE", 3, "sym"), S("TWO", 255, "ml")]))
    obs.append(make("two:256+1", [S("ONE", 256, "basic"), S("two", 1, "ascii")], full=1))
    obs.append(make("three:1+510+2", [S("A", 1, "ml"), S("B", 510, "data"), S("C", 2, "sym")], full=2))
    obs.append(make("three:0mid", [S("A", 4, "ml"), S("E", 0, "ml"), S("C", 2, "ml")]))
    obs.append(make_repeat("600", S("GAME", 600, "ml")))
    obs.append(make_repeat("510", S("TWOBLK", 510, "sym")))
    if full:
        obs.append(make("allsym:765", [S("BIG", 765, "ml", allsym=765)], timeout=900))
    return obs


gates = c06.gates
