"""C15 -- disk space accounting is exact: files that fit are stored, others fail cleanly (DESIGN 4/C15)."""
import random

from vlib import oracle_decb as OD
from vlib.driver import Ob
from vlib.harness import MemFS, install_m7
from . import disk, files as F, c06
from cocoasm.values import NumericValue
from cocoasm.virtualfiles.coco_file import CoCoFile
from cocoasm.virtualfiles.disk import DiskFile
from cocoasm.virtualfiles.source_file import SourceFile, SourceFileType
from cocoasm.virtualfiles.virtual_file import VirtualFile, VirtualFileType
from cocoasm.virtualfiles.virtual_file_exceptions import VirtualFileValidationError

PID = "C15"
BOUNDS = ("inductive step: ONE add_file from an ARBITRARY pre-state -- 68 symbolic free/used flags for the granules and 72 "
          "symbolic free/used flags for the directory slots (written as allocation bytes $FF/$C1 and first directory bytes "
          "without forking); the state space is partitioned across obligations by 'index of the first free granule in fill "
          "order' (all 68 for 1-granule files, seeded ones for 2-4 granules) and 'index of the first free directory slot' "
          "(all 72 + directory full; seeded in the granule obligations), everything after the partition point symbolic, "
          "each partition decided by the solver; files needing 1-4 granules incl. exact-multiple lengths; default and permuted fill orders.  Plus "
          "native histories (enumeration, not a solver verdict): fill an empty disk with 68 one-granule files / few large "
          "files / an EXACTLY full disk with BASIC and ASCII files of 2299, 2300, 2303, 4603 bytes / NUL-padded names, one more "
          "must fail and leave the host file untouched (through VirtualFile on the in-memory host FS); after every append an "
          "independent reader counts one directory entry per stored file and exactly the granules their streams need")
OUTSIDE = ("one step from an arbitrary state covers histories of any length provided the pre-state invariant (every used "
           "granule lies on a chain) is what histories produce: that is exactly the fsck invariant C08 establishes")
ASSUMPTIONS = c06.ASSUMPTIONS

USED_FAT = 0xC1
USED_DIR = 0x41


def sym_fat_entry(ctx, name):
    """an arbitrary allocation-table entry: x in 0..67 = link to granule x, 68..77 = last-granule marker $C0+n, 78 = free.
    -> (byte value, used flag 0/1), both branch-free terms of one symbolic integer"""
    x = ctx.int(name, 0, 78)
    isfree = (x >= 78) * 1
    byte = x + (x >= 68) * (0xC0 - 68) + isfree * (0xFF - 0xC0 - 10)
    return byte, 1 - isfree


def uniq_order(order):
    out = []
    for g in order:
        if g not in out:
            out.append(g)
    return out


def make_step(sid, length, order_name, orders, first_idx, second_idx=None, kind="ml", slot_idx=0):
    """pre-state: granules before position first_idx in fill order used, that one free (and optionally the next free one
    at second_idx), every other granule and every directory slot symbolic"""
    order = orders[order_name]
    if order is None:
        from cocoasm.virtualfiles.disk import DiskConstants
        order_list = uniq_order(DiskConstants.GRANULE_FILL_ORDER)
    else:
        order_list = uniq_order(order)

    def body(ctx):
        install_m7()
        buf = OD.blank_image()
        gflag = {}
        gbyte = {}
        for pos, g in enumerate(order_list):
            if pos < first_idx:
                used, byte = 1, [USED_FAT, 0x00, 0x05, 0xC9][pos % 4]     # concrete used entries of every kind
            elif pos == first_idx:
                used, byte = 0, 0xFF
            elif second_idx is not None and pos < second_idx:
                used, byte = 1, [0xC3, 0x00, 0x21][pos % 3]
            elif second_idx is not None and pos == second_idx:
                used, byte = 0, 0xFF
            else:
                byte, used = sym_fat_entry(ctx, "g%d" % g)
            gflag[g], gbyte[g] = used, byte
        for g in range(68):
            if g not in gflag:
                gflag[g], gbyte[g] = 1, USED_FAT     # a granule missing from the fill order can never be allocated: used
            buf[OD.FAT + g] = gbyte[g]
        sflag = []
        for s in range(72):
            if slot_idx is not None and s < slot_idx:
                u = 1                      # partition: slots before slot_idx used, slot_idx free, the rest symbolic
            elif slot_idx is not None and s == slot_idx:
                u = 0
            elif slot_idx is None:
                u = 1                      # partition "directory full"
            else:
                u = ctx.int("s%d" % s, 0, 1)
            sflag.append(u)
            buf[OD.DIR + 32 * s] = 0xFF - u * (0xFF - USED_DIR)
        free = 68
        for g in range(68):
            free = free - gflag[g]
        slots_free = 72
        for u in sflag:
            slots_free = slots_free - u
        before_fat = buf[OD.FAT:OD.FAT + 68]
        before_dir = [buf[OD.DIR + 32 * s] for s in range(72)]
        data = [(j * 5 + 1) % 250 for j in range(length)]
        ft, dt = (2, 0) if kind == "ml" else (0, 0) if kind == "basic" else (0, 0xFF)
        cf = CoCoFile(name="NEW", extension="BIN", type=NumericValue(ft), data_type=NumericValue(dt),
                      load_addr=NumericValue(0x1000), exec_addr=NumericValue(0x1000), data=data)
        stream_len = length + (10 if kind == "ml" else 3 if kind == "basic" else 0)
        minimum = max(1, -(-stream_len // 2304))
        exact = stream_len % 2304 == 0 and stream_len > 0
        d = DiskFile(buffer=buf, granule_fill_order=order)
        err = None
        try:
            d.add_file(cf)
        except VirtualFileValidationError as e:
            err = str(e)
        except Exception as e:  # noqa: BLE001 - an internal error is not a clean refusal
            err = "INTERNAL %s: %s" % (type(e).__name__, e)
        info = {"length": length, "order": order_name, "first_idx": first_idx, "error": err, "minimum": minimum}
        must_succeed = (free >= (minimum + 1 if exact else minimum)) and (slots_free >= 1)
        must_fail = (free < minimum) or (slots_free < 1)
        if err is not None and err.startswith("INTERNAL"):
            ok = False
            fault = err
        elif err is not None:
            ok = not must_succeed
            fault = "refused although %s granules and %s slots are free" % (free, slots_free)
        elif must_fail:
            ok = False
            fault = "stored although it cannot fit"
        else:
            after = d.buffer
            from crosshair.tracers import NoTracing
            with NoTracing():       # untouched entries are the very same objects; only the others need a solver look
                cand_g = [g for g in range(68) if after[OD.FAT + g] is not before_fat[g]]
                cand_s = [s for s in range(72) if after[OD.DIR + 32 * s] is not before_dir[s]]
            changed = 0
            allfree = True
            for g in cand_g:
                if after[OD.FAT + g] != before_fat[g]:
                    changed += 1
                    if gflag[g] != 0:
                        allfree = False
            taken = 0
            slot_ok = True
            for s in cand_s:
                if after[OD.DIR + 32 * s] != before_dir[s]:
                    taken += 1
                    if sflag[s] != 0:
                        slot_ok = False
            ok = allfree and slot_ok and taken == 1 and (changed == minimum or (exact and changed == minimum + 1))
            fault = "changed %s allocation entries (minimum %s), %s directory slots" % (changed, minimum, taken)
        if ok:
            return True, info
        info["fault"] = fault
        env = {"err": err, "free": free, "slots_free": slots_free, "minimum": minimum, "exact": exact, "order": order_name}
        return ctx.known(PID, {"part": "step"}, env), info
    return Ob("C15:step:%s" % sid, body, timeout=300, tags={"part": "step"},
              text="add_file(%d bytes %s) from symbolic FAT/directory, order=%s, first free granule at fill position %d%s, first free slot %s" % (
                  length, kind, order_name, first_idx, "" if second_idx is None else ", second at %d" % second_idx, slot_idx))


def _need(n, kind):
    """granules the stored stream of a file needs (property text: the minimum for its length, one more at an exact multiple)"""
    stream = n + (10 if kind == "ml" else 0)      # ML: 5-byte preamble + 5-byte postamble; BASIC / ASCII: the bytes themselves
    return stream // OD.GRAN + 1


def make_history(sid, sizes, order_name, orders, extra, kinds=None, names=None):
    """native history: add the files in turn to an empty disk through VirtualFile + in-memory host FS, saving and
    re-opening after each (what --append does); then one more file that cannot fit must fail and leave the host file"""
    def body(ctx):
        with MemFS({}) as fs:
            stored = []
            for i, n in enumerate(sizes + [extra]):
                vf = VirtualFile(SourceFile("d.dsk", file_type=SourceFileType.BINARY), VirtualFileType.DISK)
                kind = (kinds[i] if kinds and i < len(kinds) else "ml")
                ft, dt = {"ml": (2, 0), "basic": (0, 0), "ascii": (0, 0xFF)}[kind]
                cf = CoCoFile(name=(names[i] if names and i < len(names) else "F%d" % i), extension="BIN", type=NumericValue(ft), data_type=NumericValue(dt),
                              load_addr=NumericValue(0x2000 + i), exec_addr=NumericValue(0x2000 + i),
                              data=[(i + j) % 256 for j in range(n)])
                before = fs.files.get("d.dsk")
                before = before[:] if before is not None else None
                err = None
                try:
                    vf.open_virtual_file()
                    vf.add_coco_file(cf)
                    vf.save_virtual_file(append_mode=True)
                except Exception as e:  # noqa: BLE001
                    err = "%s: %s" % (type(e).__name__, e)
                last = i == len(sizes)
                if last:
                    ok = err is not None and fs.files.get("d.dsk") == before
                    return ok, {"files": len(sizes), "extra": extra, "error": err, "host_untouched": fs.files.get("d.dsk") == before}
                if err is not None:
                    return False, {"failed_at": i, "error": err}
                stored.append(cf)
                # independent accounting of the host image: one directory entry per stored file, and exactly the granules
                # their streams need are no longer free
                img = fs.files.get("d.dsk")
                nent = len(OD.entries(img))
                used = sum(1 for g in range(OD.NGRAN) if img[OD.FAT + g] != 0xFF)
                want = sum(_need(sizes[j], (kinds[j] if kinds and j < len(kinds) else "ml")) for j in range(i + 1))
                if nent != i + 1 or used != want:
                    return False, {"after_file": i, "directory_entries": nent, "granules_in_use": used, "granules_expected": want}
            return True, {}
    ob = Ob("C15:history:%s" % sid, body, timeout=900, tags={"part": "history"},
            text="empty disk + %d files of %s bytes, then %d bytes more [%s]" % (len(sizes), sorted(set(sizes)), extra, order_name), r4=False)
    ob.native_only = True
    ob.ncases = len(sizes) + 1
    return ob


def obligations(tier, seed):
    orders = disk.fill_orders(seed)
    rnd = random.Random(seed + 31)
    obs = []
    full = tier == "thorough"
    order_names = ["default", "perm0"] + (["reversed", "straddle", "perm1"] if full else [])
    for oname in order_names:
        idxs = range(68) if (full or oname == "default") else sorted(rnd.sample(range(68), 12) + [0, 67])
        for i in sorted(set(idxs)):
            obs.append(make_step("1g:%s:%d" % (oname, i), 10, oname, orders, i, slot_idx=rnd.randrange(72)))
        for i in (range(0, 68, 1) if (full or oname == "default") else sorted(set(rnd.sample(range(67), 10) + [0, 66, 67]))):
            obs.append(make_step("2g:%s:%d" % (oname, i), 2300, oname, orders, i, slot_idx=rnd.randrange(72)))
        for _ in range(6 if not full else 40):
            i = rnd.randrange(0, 66)
            j = rnd.randrange(i + 1, 67)
            obs.append(make_step("3g:%s:%d-%d" % (oname, i, j), 4700, oname, orders, i, j, slot_idx=rnd.randrange(72)))
        i = rnd.randrange(0, 60)
        obs.append(make_step("exact2:%s:%d" % (oname, i), 2294, oname, orders, i))
        obs.append(make_step("exact-basic:%s:%d" % (oname, i), 2301, oname, orders, i, kind="basic"))
        obs.append(make_step("basic-over:%s:%d" % (oname, i), 2302, oname, orders, i, kind="basic"))
        obs.append(make_step("ascii-edge:%s:%d" % (oname, i), 2305, oname, orders, i, kind="ascii"))
        if oname == "default":
            # the default fill order lists granules 40-43 twice: partitions that start right at the duplicated entries
            for (a, b) in [(14, 15), (18, 19), (14, 18), (15, 19)]:
                obs.append(make_step("3g:%s:dup%d-%d" % (oname, a, b), 4700, oname, orders, a, b, slot_idx=rnd.randrange(72)))
        obs.append(make_step("4g:%s:%d-%d" % (oname, 58, 60), 7000, oname, orders, 58, 60))   # 7 symbolic granules left
        obs.append(make_step("ascii1:%s:%d" % (oname, i), 100, oname, orders, i, kind="ascii"))
    for s in range(72):
        obs.append(make_step("slot:%d" % s, 10, "default", orders, rnd.randrange(68), slot_idx=s))
    obs.append(make_step("slot:none", 10, "default", orders, 5, slot_idx=None))
    obs.append(make_step("slot:none-2g", 2300, "perm0", orders, 7, slot_idx=None))
    ids = set()
    out = []
    for o in obs:
        if o.oid not in ids:
            ids.add(o.oid)
            out.append(o)
    out.append(make_history("68-small", [10] * 68, "default", orders, 10))
    out.append(make_history("large", [65000, 65000], "default", orders, 30000))
    # exactly full: BASIC / ASCII files whose lengths end just below a granule boundary (1 granule each) + 1-granule ML files
    out.append(make_history("exact-fill", [2299, 2300, 2303, 4603] + [10] * 63, "default", orders, 10, kinds=["basic", "basic", "ascii", "ascii"]))
    # names as they arrive from raw cassette headers (NUL padding in front of / inside / behind the name)
    out.append(make_history("nul-names", [10, 2300, 10, 10, 10], "default", orders, 160000,
                            names=["\0AB", "A\0B", "AB\0\0\0\0\0\0", "\0", "PLAIN"]))
    out.append(make_history("mixed", [20000, 100, 2300, 50000, 10, 4700] + [3000] * 10, "default", orders, 60000))
    return out


gates = c06.gates
