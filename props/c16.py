"""C16 -- file_util conversions carry every selected file across unchanged (DESIGN 4/C16)."""
from vlib import oracle_cas as OC, oracle_decb as OD
from vlib.driver import Ob
from vlib.harness import MemFS, install_m7
from . import cli, c06, files as F
from cocoasm.virtualfiles.cassette import CassetteFile
from cocoasm.virtualfiles.disk import DiskFile

PID = "C16"
BOUNDS = ("file_util.main on the in-memory host FS; source images written by the tool (cassette or disk, 1-3 files, "
          "symbolic contents and addresses, names incl. mixed case and 8+ characters) converted with --to_cas / --to_dsk / "
          "--to_bin, with and without --files (enumerated subsets, upper/lower/mixed case), and chains cas->dsk->cas and "
          "dsk->cas->dsk; the results are read by the independent oracles (O-CAS parse, O-DECB fsck); BASIC and ML "
          "files longer than one granule / one tape block through both chains")
OUTSIDE = "more than 3 files; BASIC/ASCII files compare type and data only on disk (Disk BASIC stores no addresses for them)"
ASSUMPTIONS = c06.ASSUMPTIONS


def listing_cas(buf):
    out = []
    for f in OC.parse(buf):
        out.append({"name": "".join(chr(x) for x in f["name"]), "ftype": f["ftype"], "dtype": f["dtype"], "load": f["load"],
                    "exec": f["exec"], "data": f["data"]})
    return out


def listing_dsk(buf):
    out = []
    for (e, grans, st) in OD.fsck(buf, None):
        d = {"name": "".join(chr(x) for x in e["name"]), "ftype": e["ftype"], "dtype": e["ascii"]}
        if e["ftype"] == 2:
            n = st[1] * 256 + st[2]
            d["load"] = st[3] * 256 + st[4]
            d["data"] = st[5:5 + n]
            d["exec"] = st[5 + n + 3] * 256 + st[5 + n + 4] if len(st) >= n + 10 else None
        elif e["ascii"] == 0xFF:
            d["data"], d["load"], d["exec"] = st, None, None
        else:
            n = st[1] * 256 + st[2]
            d["data"], d["load"], d["exec"] = st[3:3 + n], None, None
        out.append(d)
    return out


def same(listing, descs, addrs=True):
    if len(listing) != len(descs):
        return False
    for l, d in zip(listing, descs):
        if F.norm_name(l["name"]) != F.norm_name(d["name"]):
            return False
        if l["ftype"] != d["ftype"] or l["dtype"] != d["dtype"]:
            return False
        if d["ftype"] == 2 or (addrs and l["load"] is not None):
            if l["load"] != d["load"] or l["exec"] != d["exec"]:
                return False
        if len(l["data"]) != len(d["data"]) or l["data"] != d["data"]:
            return False
    return True


def make(sid, src_kind, specs, steps, selection=None, expect_sel=None):
    """steps: list of target kinds ('cas'|'dsk'); selection: --files list for the first step"""
    def body(ctx):
        install_m7()
        fl, descs = F.build(ctx, specs, allsym_limit=6, full_addr_index=0)
        src = CassetteFile() if src_kind == "cas" else DiskFile()
        src.add_files(fl)
        info = {"src": src_kind, "files": [s.text() for s in specs], "steps": steps, "selection": selection}
        want = descs if expect_sel is None else [descs[i] for i in expect_sel]
        with MemFS({"img0": src.get_buffer()}) as fs:
            cur = "img0"
            fault = None
            for i, k in enumerate(steps):
                nxt = "img%d" % (i + 1)
                r = cli.run_file_util(host_filename=cur, files=(selection if i == 0 else None), **{"to_" + k: nxt})
                if r.exc or r.exit not in (None, 0):
                    fault = "step %d failed: %s exit=%s out=%s" % (i, r.exc, r.exit, r.out[-120:])
                    break
                if nxt not in fs.files:
                    fault = "step %d wrote nothing" % i
                    break
                cur = nxt
            final = fs.files.get(cur)
        if fault is None:
            try:
                lst = listing_cas(final) if steps[-1] == "cas" else listing_dsk(final)
                info["listed"] = [(l["name"], l["ftype"], len(l["data"])) for l in lst]
                if not same(lst, want, addrs=(steps[-1] == "cas" and "dsk" not in steps and src_kind == "cas")):
                    fault = "final listing differs from the selected source files"
            except (OC.TapeError, OD.FsError) as e:
                fault = "final image malformed: %s" % e
        info["fault"] = fault
        if fault is None:
            return True, info
        env = {"fault": fault, "src": src_kind, "steps": steps, "selection": selection, "lengths": [s.length for s in specs],
               "names": [s.name for s in specs], "kinds": [s.kind for s in specs], "n": len(specs),
               "empty_index": ([s.length for s in specs] + [0]).index(0),
               "listed": len(info.get("listed", [])) if "listed" in info else -1}
        return ctx.known(PID, {"part": "convert"}, env), info
    return Ob("C16:%s:%s:%s%s" % (sid, src_kind, ">".join(steps), (":" + ",".join(selection)) if selection else ""), body,
              timeout=400, tags={"part": "convert"}, text="%s %s -> %s files=%s" % (src_kind, [s.text() for s in specs], steps, selection))


def make_from_foreign_disk(sid, specs, chains, slots, deleted, steps):
    """source: a well-formed Disk BASIC image with deleted directory entries ahead of live files (independent writer)"""
    def body(ctx):
        install_m7()
        _fl, descs = F.build(ctx, specs, allsym_limit=6, full_addr_index=0)
        src = OD.write_image(descs, chains, slots=slots, deleted=deleted)
        info = {"files": [s.text() for s in specs], "slots": slots, "deleted": deleted, "steps": steps}
        with MemFS({"img0": src}) as fs:
            cur, fault = "img0", None
            for i, k in enumerate(steps):
                nxt = "img%d" % (i + 1)
                r = cli.run_file_util(host_filename=cur, **{"to_" + k: nxt})
                if r.exc or r.exit not in (None, 0) or nxt not in fs.files:
                    fault = "step %d failed: %s exit=%s out=%s" % (i, r.exc, r.exit, r.out[-120:])
                    break
                cur = nxt
            final = fs.files.get(cur)
        if fault is None:
            try:
                lst = listing_cas(final) if steps[-1] == "cas" else listing_dsk(final)
                info["listed"] = [(l["name"], l["ftype"], len(l["data"])) for l in lst]
                if not same(lst, descs, addrs=False):
                    fault = "final listing differs from the source files"
            except (OC.TapeError, OD.FsError) as e:
                fault = "final image malformed: %s" % e
        info["fault"] = fault
        if fault is None:
            return True, info
        return ctx.known(PID, {"part": "foreign"}, {"fault": fault}), info
    return Ob("C16:foreign:%s:%s" % (sid, ">".join(steps)), body, timeout=400, tags={"part": "foreign"},
              text="foreign disk %s slots=%s deleted=%s -> %s" % ([s.text() for s in specs], slots, deleted, steps))


def make_tobin(sid, src_kind, specs, expect_refuse):
    def body(ctx):
        install_m7()
        fl, descs = F.build(ctx, specs, allsym_limit=16, full_addr_index=0)
        src = CassetteFile() if src_kind == "cas" else DiskFile()
        src.add_files(fl)
        with MemFS({"img0": src.get_buffer()}) as fs:
            r = cli.run_file_util(host_filename="img0", to_bin="out.bin")
            out = fs.files.get("out.bin")
        info = {"exit": r.exit, "stdout": r.out[-150:], "written": None if out is None else len(out)}
        if expect_refuse:
            ok = out is None and r.exit not in (None, 0)
        else:
            ok = out is not None and len(out) == len(descs[0]["data"]) and out == descs[0]["data"] and r.exit in (None, 0) and not r.exc
        if ok:
            return True, info
        return ctx.known(PID, {"part": "tobin"}, {"refuse": expect_refuse, "src": src_kind, "n": len(specs)}), info
    return Ob("C16:tobin:%s:%s" % (sid, src_kind), body, timeout=300, tags={"part": "tobin"},
              text="%s %s --to_bin (%s)" % (src_kind, [s.text() for s in specs], "must refuse" if expect_refuse else "byte exact"))


def obligations(tier, seed):
    S = F.Spec
    obs = []
    one = [S("PROG", 20, "ml")]
    two = [S("Hello", 5, "ml"), S("WORLD", 300, "ml")]
    three = [S("ONE", 3, "ml"), S("two", 256, "ml"), S("LONGNAME9", 7, "ml")]
    mixed = [S("BAS", 10, "basic", ext="BAS"), S("BIN", 10, "ml")]
    for src in ("cas", "dsk"):
        other = "dsk" if src == "cas" else "cas"
        obs.append(make("one", src, one, [other]))
        obs.append(make("one", src, one, [src]))
        obs.append(make("two", src, two, [other]))
        obs.append(make("three", src, three, [other]))
        obs.append(make("three", src, three, [other, src]))
        obs.append(make("two", src, two, [other, src, other]))
        obs.append(make("mixed", src, mixed, [other]))
        # files of every kind that span more than one granule / more than one tape block
        multi = [S("BASBIG", 3000, "basic", ext="BAS"), S("MLBIG", 2500, "ml"), S("SMALL", 7, "ml")]
        obs.append(make("multi-gran", src, multi, [other, src]))
        obs.append(make("multi-gran-basic2300", src, [S("B2300", 2300, "basic", ext="BAS"), S("AFTER", 9, "ml")], [other, src]))
        obs.append(make("edge2295", src, [S("EDGE", 2295, "ml")], [other, src]))
        obs.append(make("edge2298+256", src, [S("EDGE", 2298, "ml"), S("B256", 256, "ml")], [other, src]))
        obs.append(make("sel-upper", src, two, [other], ["WORLD"], [1]))
        obs.append(make("sel-lower", src, two, [other], ["world"], [1]))
        obs.append(make("sel-mixed", src, two, [other], ["hello"], [0]))
        obs.append(make("sel-exact", src, two, [other], ["Hello"], [0]))
        obs.append(make("sel-both", src, three, [other], ["two", "ONE"], [0, 1]))
        obs.append(make("sel-none", src, two, [other], ["NOSUCH"], []))
        sub = [S("PROG", 4, "ml"), S("PROG2", 6, "ml"), S("GAME", 9, "ml"), S("LOADER", 3, "ml"), S("LOAD", 5, "ml")]
        obs.append(make("substr1", src, sub, [other], ["prog2", "Game"], [1, 2]))
        obs.append(make("substr2", src, sub, [other], ["LOADER"], [3]))
        obs.append(make("substr3", src, sub, [other], ["LOAD", "PROG"], [0, 4]))
        dup = [S("GAME", 4, "ml"), S("DATA", 6, "ml"), S("GAME", 9, "ml")]
        obs.append(make("dup-all", src, dup, [other]))
        obs.append(make("dup-sel1", src, dup, [other], ["game"], [0, 2]))
        obs.append(make("dup-sel2", src, dup, [other], ["GAME", "DATA"], [0, 1, 2]))
        obs.append(make_tobin("one", src, one, False))
        obs.append(make_tobin("big", src, [S("BIG", 600, "ml")], False))
        obs.append(make_tobin("two", src, two, True))
    holes = [S("FIRST", 30, "ml"), S("THIRD", 40, "ml"), S("FOURTH", 10, "ml")]
    obs.append(make_from_foreign_disk("holes", holes, [[5], [9], [40]], [0, 2, 7], [1, 3], ["cas"]))
    obs.append(make_from_foreign_disk("holes", holes, [[5], [9], [40]], [0, 2, 7], [1, 3], ["cas", "dsk"]))
    obs.append(make_from_foreign_disk("hole-first", holes[:2], [[12], [13]], [3, 4], [0], ["dsk"]))
    return obs


gates = c06.gates
