"""C17 -- assembler output depends only on the source text (DESIGN 4/C17)."""
import copy
import json
import os
import subprocess
import sys

from vlib.driver import Ob
from vlib.harness import REPO, assemble, image, stmt_bytes, symbols
from . import meta
import cocoasm.instruction as _ins
import cocoasm.virtualfiles.coco_file as _cf
from cocoasm.program import Program

PID = "C17"
BOUNDS = ("product runs in one interpreter: out0 = asm(P,v); asm(Q1); asm(Q2); out1 = asm(P,v) with P from 3 program "
          "templates (symbolic origin and operands), Q from accepted and rejected programs (rejected in the parse, symbol "
          "and translation phases); out0 == out1 asserted on integer observations (addresses, sizes, bytes, symbols, origin, "
          "name) for all values; programs that spell every operand (immediate, extended, indexed offset, FCB/FDB list items) "
          "alike but bind the names to other values / statement indices / addresses, accepted and rejected, each accepted run "
          "held against the arithmetic value of its own bindings (symbolic EQU values 20..120); the list of source lines is unchanged; module-level mutable state (INSTRUCTIONS, default "
          "argument instances of CodePackage / CoCoFile) is unchanged at the end of every path.  Enumerated, NOT decided by "
          "the solver: fresh process vs warm process and 3 PYTHONHASHSEEDs on concrete members (listing, symbol table, image); "
          "listing/symbol-table/image STRINGS of P before and after 15 history programs (long labels, BOM, tabs, CRLF, 300 "
          "statements ...), each history program's own list of lines unchanged, and a snapshot of every class attribute and "
          "module global of cocoasm.* (mutable or not)")
OUTSIDE = "more than three intervening programs; programs outside the three templates and the re-binding template"
ASSUMPTIONS = []

REJECTED = {
    "ind-inc1": [" LDA [,X+]"], "ind-dec1": [" LDB [,-Y]"], "bad-reg": [" LDA 5,Z"], "pshs-s": [" PSHS S"], "tfr-mixed": [" TFR A,X"],
    "imm-wide": [" LDA #$1234"], "dir-wide": [" LDA <$1234"], "far-branch": ["A BRA B", " RMB 200", "B NOP"], "sta-imm": [" STA #1"],
    "dup": ["L NOP", "L NOP"], "undef": [" JMP NOWHERE"], "bad-mnem": [" FROB"], "div0": [" LDA #4/0"], "unterminated": [' FCC "ab'],
}

QS = {
    "ok-small": [" ORG $3000", "Q1 LDA #1", " BRA Q1"],
    "ok-pcr": ["QA LEAX QB,PCR", " RMB 200", "QB NOP"],
    "bad-parse": ["Q1 LDA #1", " FOO 12", " NOP"],
    "bad-symbol": ["START LDA UNDEFINED", " NOP"],
    "bad-dup": ["START NOP", "START NOP"],
    "bad-operand": [" ORG $100", "MESSAGE LDA #$12345", " NOP"],
    "bad-mode": ["FINISH STA #5"],
    "same-labels": [" ORG $4000", "START NOP", "MESSAGE FCC 'X'", "FINISH JMP START", "CHROUT EQU 5"],
}


def _safe_repr(v, limit):
    """repr of module-level state; a container that (under a seeded change) holds symbolic values cannot always be
    rendered inside the tracer - its type, length and keys are state enough to see it grow"""
    try:
        return repr(v)[:limit]
    except Exception:  # noqa: BLE001
        try:
            keys = sorted(str(k) for k in v.keys())[:50] if isinstance(v, dict) else None
        except Exception:  # noqa: BLE001
            keys = None
        return "<%s len=%d keys=%s>" % (type(v).__name__, len(v), keys)


def _mutable_repr(v):
    import inspect as _i
    if isinstance(v, (list, dict, set)):
        return _safe_repr(v, 2000)
    if _i.isgenerator(v):
        # a generator / iterator kept at module level wears out with use: record how far it has been consumed
        return ("generator", _i.getgeneratorstate(v), v.gi_frame.f_lasti if v.gi_frame is not None else -1)
    if hasattr(v, "__next__") and hasattr(v, "__length_hint__"):
        return ("iterator", v.__length_hint__())
    if hasattr(v, "__dict__") and not isinstance(v, type) and not callable(v):
        return (type(v).__name__, sorted((k, repr(x)[:200]) for k, x in vars(v).items()))
    return None


def _umask():
    m = os.umask(0o022)
    os.umask(m)
    return m


def make_realfs_history():
    """the real host file system (no in-memory model): P with a relative INCLUDE, a program rejected INSIDE an include that
    lives in another directory, P again - same listing / symbols / image, same working directory"""
    def body(ctx):
        import shutil
        import tempfile
        d = tempfile.mkdtemp(prefix="verif-c17-")
        old = os.getcwd()
        bad = []
        try:
            os.makedirs(os.path.join(d, "lib", "deep"))
            open(os.path.join(d, "ok.asm"), "w").write("DELAY LDB #5\nDLOOP DECB\n BNE DLOOP\n RTS\n")
            open(os.path.join(d, "lib", "broken.asm"), "w").write("X1 NOP\n FROB 1\n")
            open(os.path.join(d, "lib", "undef.asm"), "w").write("X2 LDA NOWHERE\n")
            open(os.path.join(d, "lib", "deep", "fine.asm"), "w").write("X3 NOP\n")
            open(os.path.join(d, "lib", "outer.asm"), "w").write(" INCLUDE lib/deep/fine.asm\n FROB 2\n")
            os.chdir(d)
            p_lines = [" ORG $3000\n", "START LDA #1\n", " INCLUDE ok.asm\n", "DONE RTS\n"]
            base = listing(assemble(list(p_lines)))
            cwd0 = os.getcwd()
            for q in ([" INCLUDE lib/broken.asm\n"], [" INCLUDE lib/undef.asm\n", " NOP\n"], [" INCLUDE lib/outer.asm\n"],
                      [" INCLUDE lib/deep/fine.asm\n", " NOP\n"], [" INCLUDE nowhere/none.asm\n"]):
                assemble(list(q))
                if os.getcwd() != cwd0:
                    bad.append("working directory changed by %r" % (q,))
                now = listing(assemble(list(p_lines)))
                if now != base:
                    bad.append("P differs after %r" % (q,))
                if bad:
                    break
            if base[0] == "rejected":
                bad.append("P itself was rejected: %r" % (base,))
        finally:
            os.chdir(old)
            shutil.rmtree(d, ignore_errors=True)
        return (not bad), {"bad": bad}
    ob = Ob("C17:realfs-history", body, timeout=300, tags={"part": "history"}, text="relative INCLUDEs on the real file system, rejected includes in other directories in between (enumeration)", r4=False)
    ob.native_only = True
    ob.ncases = 5
    return ob


def snapshot():
    """module-level mutable state of every cocoasm module: mutable class attributes, mutable default arguments of
    functions and methods, module globals that are lists/dicts"""
    import inspect
    snap = {"process.cwd": os.getcwd(), "process.environ": sorted(os.environ.items()), "process.sys.path": tuple(sys.path),
            "process.umask": _umask(), "process.recursionlimit": sys.getrecursionlimit()}
    for mname, mod in sorted(sys.modules.items()):
        if not (mname == "cocoasm" or mname.startswith("cocoasm.")) or mod is None:
            continue
        for gname, g in sorted(vars(mod).items()):
            if gname.startswith("__"):
                continue
            if isinstance(g, (list, dict, set)):
                snap["%s.%s" % (mname, gname)] = (len(g), _safe_repr(g, 3000))
            elif isinstance(g, (int, float, str, bytes, tuple, frozenset, type(None))):
                snap["%s.%s" % (mname, gname)] = repr(g)[:300]
            elif _mutable_repr(g) is not None and not inspect.isclass(g) and not inspect.isfunction(g) and not inspect.ismodule(g) \
                    and (inspect.isgenerator(g) or hasattr(g, "__next__")):
                snap["%s.%s" % (mname, gname)] = _mutable_repr(g)
            if inspect.isclass(g) and g.__module__ == mname:
                for aname, a in sorted(vars(g).items()):
                    fn = a.__func__ if isinstance(a, (classmethod, staticmethod)) else a
                    if inspect.isfunction(fn):
                        for i, dv in enumerate((fn.__defaults__ or ()) + tuple((fn.__kwdefaults__ or {}).values())):
                            r = _mutable_repr(dv)
                            if r is not None:
                                snap["%s.%s.%s#default%d" % (mname, gname, aname, i)] = r
                    elif not aname.startswith("__"):
                        r = _mutable_repr(a)
                        if r is not None:
                            snap["%s.%s.%s" % (mname, gname, aname)] = r
                        elif isinstance(a, (int, float, str, bytes, tuple, frozenset, type(None))):
                            # plain class attributes (counters, widths, high-water marks) are process-wide state too
                            snap["%s.%s.%s" % (mname, gname, aname)] = repr(a)[:300]
                for fname, dv in getattr(g, "_field_defaults", {}).items():
                    r = _mutable_repr(dv)
                    if r is not None:
                        snap["%s.%s._field_defaults.%s" % (mname, gname, fname)] = r
            if inspect.isfunction(g) and g.__module__ == mname:
                for i, dv in enumerate(g.__defaults__ or ()):
                    r = _mutable_repr(dv)
                    if r is not None:
                        snap["%s.%s#default%d" % (mname, gname, i)] = r
    return snap


def make(pname, qnames):
    prog = meta.PROGRAMS[pname]

    def body(ctx):
        texts, vals = meta.make_lits(ctx, prog)
        lines = [l + "\n" for l in meta.render(prog["body"], texts)]
        given = list(lines)
        before = snapshot()
        p0 = Program()
        from vlib.harness import Outcome
        out0 = assemble(lines)
        o0 = meta.observe(out0)
        for q in qnames:
            assemble(QS[q])
        out1 = assemble(lines)
        o1 = meta.observe(out1)
        after = snapshot()
        fault = None
        if lines != given:
            fault = "the list of source lines was modified"
        elif before != after:
            fault = "module-level state changed"
        elif not meta.same_obs(o0, o1):
            fault = "second run differs from the first"
        info = {"program": pname, "between": qnames, "outcome": out0.describe(), "fault": fault}
        if fault is None:
            return True, info
        return ctx.known(PID, {"part": "product"}, {"fault": fault}), info
    return Ob("C17:product:%s:%s" % (pname, "+".join(qnames) or "none"), body, timeout=600, tags={"part": "product"},
              text="asm(%s); %s; asm(%s)" % (pname, "; ".join("asm(%s)" % q for q in qnames), pname))


def _rebind_lines(ktext, pad, reject=False):
    """the same operand TEXTS under different bindings: SIZE has another value and (pad) every label sits at another
    statement index and address.  -> (lines, {statement index: function(k, symbols) -> expected bytes})"""
    head = [" ORG $2000", "SIZE EQU %s" % ktext] + [" NOP"] * pad
    body = ["START LDA #SIZE+1", " LDX #TABLE+2", " STA SIZE+1,X", " LDD TABLE+2", " CMPX #START+1", " FCB 1,SIZE+1,3", " FDB 0,TABLE+2",
            " FDB SIZE*2,SIZE+1", " FCB SIZE-1,SIZE+1", "TABLE FDB START,SIZE", " FDB START+1,TABLE-1", " RTS"]
    if reject:
        body.append(" FDB 1,NOWHERE+1")
    b = len(head)
    w = lambda v: [(v >> 8) & 255, v & 255]                                     # noqa: E731
    exp = {
        b + 0: lambda k, sy: [0x86, k + 1],
        b + 1: lambda k, sy: [0x8E] + w(sy["TABLE"] + 2),
        b + 2: lambda k, sy: [0xA7, 0x88, k + 1],
        b + 3: lambda k, sy: [0xFC] + w(sy["TABLE"] + 2),
        b + 4: lambda k, sy: [0x8C] + w(sy["START"] + 1),
        b + 5: lambda k, sy: [1, k + 1, 3],
        b + 6: lambda k, sy: [0, 0] + w(sy["TABLE"] + 2),
        b + 7: lambda k, sy: w(k * 2) + w(k + 1),
        b + 8: lambda k, sy: [k - 1, k + 1],
        b + 9: lambda k, sy: w(sy["START"]) + w(k),
        b + 10: lambda k, sy: w(sy["START"] + 1) + w(sy["TABLE"] - 1),
    }
    return [l + "\n" for l in head + body], exp, 0x2000 + pad


def make_rebind(sid, seq):
    """programs that spell every operand alike but bind the names differently (another EQU value, every label at another
    statement index and address), assembled one after the other in one interpreter - accepted and rejected ones; every
    accepted run is held against the arithmetic value of its OWN bindings (an absolute oracle: a binding kept from an
    earlier program shows even when the first and the last run agree with each other)"""
    def body(ctx):
        ks = {}
        for name in sorted(set(n for n, _pad, _rej in seq)):
            t, v = ctx.lit("D3", name)
            ctx.assume(20 <= v)
            ctx.assume(v <= 120)
            ks[name] = (t, v)
        before = snapshot()
        info = {"sequence": [(n, pad, rej) for n, pad, rej in seq], "fault": None}
        for step, (name, pad, rej) in enumerate(seq):
            t, k = ks[name]
            lines, exp, start = _rebind_lines(t, pad, rej)
            out = assemble(lines)
            if rej:
                if out.kind != "diag":
                    info["fault"] = "step %d: a program with an undefined name was not rejected (%s)" % (step, out.describe())
                    break
                continue
            if not out.ok:
                info["fault"] = "step %d: rejected: %s" % (step, out.describe())
                break
            sy = symbols(out.program)
            if sy.get("START") != start or sy.get("SIZE") != k:
                info["fault"] = "step %d: symbol table START/SIZE" % step
                break
            for idx, f in exp.items():
                got = stmt_bytes(out.program.statements[idx])
                want = f(k, sy)
                if len(got) != len(want) or got != want:
                    info["fault"] = "step %d (%s, %d statements in front): %r emitted %r" % (step, name, pad, lines[idx].strip(), list(got))
                    break
            if info["fault"]:
                break
        if info["fault"] is None and snapshot() != before:
            info["fault"] = "module-level state changed"
        if info["fault"] is None:
            return True, info
        return ctx.known(PID, {"part": "rebind"}, {"fault": info["fault"]}), info
    return Ob("C17:rebind:" + sid, body, timeout=600, tags={"part": "rebind"},
              text="same operand texts, other bindings: " + "; ".join("asm(%s%s%s)" % (n, "+%d" % pad if pad else "", " rejected" if rej else "") for n, pad, rej in seq))


LIB = ["DELAY LDB #{v}", "DLOOP DECB", " BNE DLOOP", " JMP DDONE", " NOP", "DDONE RTS"]
P_INC = [" ORG {o}", "PSTART LDA #1", " JSR DELAY", " BRA PSTART", " INCLUDE lib.asm", "PEND NOP"]
Q_INC = [" ORG $4000", "QSTART LDX #$1234", " LDY #$5678", " NOP", " NOP", " INCLUDE lib.asm", " JSR DELAY", " FDB DDONE"]
Q_INC2 = [" INCLUDE lib.asm", " INCLUDE lib.asm"]      # rejected: labels defined twice


def make_reject_twice(name, lines):
    """a program that must be rejected is rejected every time it is assembled in one interpreter (and after the others)"""
    def body(ctx):
        kinds = []
        for _ in range(3):
            kinds.append(assemble(lines).kind)
            for other in REJECTED.values():
                if other is not lines:
                    assemble(other)
        info = {"program": lines, "outcomes": kinds}
        if kinds[0] == kinds[1] == kinds[2] == "diag":
            return True, info          # (these programs are rejected on a fresh interpreter: anything else depends on history)
        return ctx.known(PID, {"part": "reject"}, {"kinds": kinds}), info
    return Ob("C17:reject:%s" % name, body, timeout=120, tags={"part": "reject"}, text="asm(%s) three times with the other rejected programs in between" % lines, r4=False)


def make_include(sid, seq):
    """programs that INCLUDE the same file from different places, in one interpreter"""
    from vlib.harness import MemFS

    def body(ctx):
        to, o = ctx.lit("H4", "o")
        ctx.assume(256 <= o)
        ctx.assume(o <= 60000)
        tv, v = ctx.lit("H2", "v")
        lib = [l.format(v=tv) + "\n" for l in LIB]
        progs = {"P": [l.format(o=to) for l in P_INC], "Q": Q_INC, "Q2": Q_INC2}
        before = snapshot()
        with MemFS({"lib.asm": lib}):
            o0 = meta.observe(assemble(progs["P"]))
            for q in seq:
                assemble(progs[q])
            o1 = meta.observe(assemble(progs["P"]))
        after = snapshot()
        fault = None
        if before != after:
            fault = "module-level state changed: %s" % sorted(k for k in after if before.get(k) != after.get(k))[:3]
        elif not meta.same_obs(o0, o1) or o0["kind"] != "ok":
            fault = "run of P after %s differs from the first (%s / %s)" % (seq, o0["kind"], o1["kind"])
        info = {"between": seq, "fault": fault}
        if fault is None:
            return True, info
        return ctx.known(PID, {"part": "include"}, {"fault": fault}), info
    return Ob("C17:include:%s" % sid, body, timeout=300, tags={"part": "include"}, text="asm(P incl lib); %s; asm(P incl lib)" % seq)


DUMP = r"""
import sys, json
sys.path.insert(0, %r)
from cocoasm.program import Program
lines = json.loads(sys.argv[1])
p = Program()
try:
    p.process(lines)
    print(json.dumps({"image": p.get_binary_array(), "listing": p.get_statements(), "symbols": p.get_symbol_table()}))
except Exception as e:
    print(json.dumps({"error": type(e).__name__}))
"""


def make_process(pname, values):
    prog = meta.PROGRAMS[pname]

    def body(ctx):
        texts = {}
        for name, (cls, lo, hi) in prog["lits"].items():
            from vlib.cut import Lit
            texts[name] = Lit(cls, name).real_text(abs(values[name]))
            if cls[0] == "N" and values[name] >= 0:
                texts[name] = texts[name]
        lines = [l + "\n" for l in meta.render(prog["body"], texts)]
        # warm process: after other programs
        for q in QS.values():
            assemble(q)
        p = Program()
        p.process(list(lines))
        warm = {"image": p.get_binary_array(), "listing": p.get_statements(), "symbols": p.get_symbol_table()}
        outs = []
        for seedv in ("0", "1", "12345"):
            env = dict(os.environ, PYTHONHASHSEED=seedv)
            r = subprocess.run(["/venv/bin/python", "-c", DUMP % REPO, json.dumps(lines)], capture_output=True, text=True, env=env, timeout=120)
            outs.append(json.loads(r.stdout.strip().splitlines()[-1]))
        ok = all(o == warm for o in outs)
        return ok, {"program": pname, "values": values, "fresh_equal_warm": [o == warm for o in outs]}
    ob = Ob("C17:process:%s:%s" % (pname, "-".join(str(values[k]) for k in sorted(values))), body, timeout=300,
            tags={"part": "process"}, text="fresh process x3 hash seeds vs warm process: %s %s" % (pname, values), r4=False)
    ob.native_only = True
    ob.ncases = 4
    return ob


TIES = [" ORG $3000", "IOA EQU $FF22", "IOB EQU $FF22", "IOC EQU $FF22", "ZED EQU $FF22", "ALPHA EQU $FF22", "START LDA IOA", "ENTRY EQU $3000",
        "SAME1 NOP", "K1 EQU 5", "K2 EQU 5", "K3 EQU 5", "K4 EQU 5", "TAIL RTS"]


def make_process_ties():
    """symbols that share a value: listing and symbol table identical in fresh processes under 6 hash seeds"""
    def body(ctx):
        lines = [l + "\n" for l in TIES]
        p = Program()
        p.process(list(lines))
        warm = {"image": p.get_binary_array(), "listing": p.get_statements(), "symbols": p.get_symbol_table()}
        outs = []
        for seedv in ("0", "1", "2", "3", "12345", "random"):
            env = dict(os.environ, PYTHONHASHSEED=seedv)
            r = subprocess.run(["/venv/bin/python", "-c", DUMP % REPO, json.dumps(lines)], capture_output=True, text=True, env=env, timeout=120)
            outs.append(json.loads(r.stdout.strip().splitlines()[-1]))
        return all(o == warm for o in outs), {"fresh_equal_warm": [o == warm for o in outs]}
    ob = Ob("C17:process:ties", body, timeout=300, tags={"part": "process"}, text="symbols sharing one value: 6 hash seeds, fresh processes", r4=False)
    ob.native_only = True
    ob.ncases = 7
    return ob


def make_process_include():
    """fresh process vs a warm process that assembled Q (including the same file elsewhere) first"""
    def body(ctx):
        import tempfile
        lib = [l.format(v="$05") + "\n" for l in LIB]
        P = [l.format(o="$2000") + "\n" for l in P_INC]
        Q = [l + "\n" for l in Q_INC]
        with tempfile.TemporaryDirectory() as d:
            with open(os.path.join(d, "lib.asm"), "w") as f:
                f.writelines(lib)
            cwd = os.getcwd()
            os.chdir(d)
            try:
                pq = Program()
                pq.process(list(Q))
                pp = Program()
                pp.process(list(P))
                warm = {"image": pp.get_binary_array(), "listing": pp.get_statements(), "symbols": pp.get_symbol_table()}
                r = subprocess.run(["/venv/bin/python", "-c", DUMP % REPO, json.dumps(P)], capture_output=True, text=True, timeout=120, cwd=d)
                fresh = json.loads(r.stdout.strip().splitlines()[-1])
            finally:
                os.chdir(cwd)
        return fresh == warm, {"fresh_equals_warm": fresh == warm}
    ob = Ob("C17:process:include", body, timeout=300, tags={"part": "process"}, text="fresh process vs warm process after a program that INCLUDEs the same file", r4=False)
    ob.native_only = True
    ob.ncases = 2
    return ob


HISTORY = {
    "long-label": ["AVERYLONGLABELNAME12345 NOP", " JMP AVERYLONGLABELNAME12345"],
    "long-label-rejected": ["ANOTHERVERYLONGLABEL99 FROB 1"],
    "bom": ["\ufeff NAM BOMMED", " NOP"],
    "bom-label": ["\ufeffSTART NOP", " BRA START"],
    "long-comment": [" NOP ; " + "a very long comment " * 12],
    "long-operand": [' FCC "' + "STRING" * 30 + '"'],
    "wide-list": [" FDB " + ",".join("$%04X" % (i * 257) for i in range(40))],
    "many": ["L%d NOP" % i for i in range(300)],
    "lower": [" lda #1", "start nop"],
    "tabs": ["\tNOP", "T1\tLDA\t#1\tcomment"],
    "crlf": [" NOP\r\n", "C1 LDA #1\r\n"],
    "blank": ["", "   ", "* star comment", "; semi comment"],
    "big-origin": [" ORG $FFF0", " NOP"],
    "end-entry": ["S1 NOP", " END S1"],
    "setdp": [" SETDP $20", " LDA <$2010"],
}


def listing(out):
    if not out.ok:
        return ("rejected", out.exc_name, str(out.exc))
    p = out.program
    return ([str(s) for s in p.get_statements()] if hasattr(p, "get_statements") else [str(s) for s in p.statements],
            [str(s) for s in p.get_symbol_table()] if hasattr(p, "get_symbol_table") else sorted(p.symbol_table),
            list(image(p)), None if p.origin.is_none() else p.origin.int, p.name)


def make_history(pname, values):
    """concrete P: listing / symbol table / image STRINGS before and after every history program (accepted or rejected);
    each history program's own list of lines must come back unchanged"""
    prog = meta.PROGRAMS[pname]

    def body(ctx):
        from vlib.cut import Lit
        texts = {name: Lit(cls, name).real_text(abs(values[name])) for name, (cls, lo, hi) in prog["lits"].items()}
        lines = [l + "\n" for l in meta.render(prog["body"], texts)]
        base = listing(assemble(lines))
        before = snapshot()
        bad = []
        for hname, hl in HISTORY.items():
            src = [l if l.endswith("\n") else l + "\n" for l in hl]
            given = list(src)
            assemble(src, wall_limit=20)
            if src != given:
                bad.append("%s: the caller's list of source lines was modified" % hname)
            now = listing(assemble(lines))
            if now != base:
                bad.append("%s: listing/symbols/image of P changed afterwards" % hname)
            if snapshot() != before:
                bad.append("%s: module-level state changed" % hname)
            if bad:
                break
        info = {"program": pname, "values": values, "bad": bad}
        if not bad:
            return True, info
        return ctx.known(PID, {"part": "history"}, {"bad": bad}), info
    ob = Ob("C17:history:%s" % pname, body, timeout=600, tags={"part": "history"},
            text="listing strings of %s before/after %d history programs (enumeration)" % (pname, len(HISTORY)), r4=False)
    ob.native_only = True
    ob.ncases = len(HISTORY)
    return ob


def obligations(tier, seed):
    import random
    rnd = random.Random(seed + 51)
    obs = []
    full = tier == "thorough"
    combos = [[], ["ok-small"], ["bad-symbol", "ok-pcr"], ["bad-parse", "bad-dup"], ["same-labels", "bad-operand"], ["bad-mode", "ok-small"]]
    for pname in meta.PROGRAMS:
        for qs in (combos if full else combos[:4] if pname == "hello" else [combos[2], combos[4]]):
            obs.append(make(pname, qs))
    for name, lines in REJECTED.items():
        obs.append(make_reject_twice(name, lines))
    for pname, prog in meta.PROGRAMS.items():
        obs.append(make_history(pname, {k: (lo + hi) // 2 for k, (cls, lo, hi) in prog["lits"].items()}))
    obs.append(make_realfs_history())
    obs.append(make_rebind("A-B-A", [("ka", 0, False), ("kb", 3, False), ("ka", 0, False)]))
    obs.append(make_rebind("A-rejB-B", [("ka", 2, False), ("kb", 0, True), ("kb", 1, False)]))
    obs.append(make_process_ties())
    obs.append(make_include("P-P", []))
    obs.append(make_include("P-Q-P", ["Q"]))
    obs.append(make_include("P-Q2-Q-P", ["Q2", "Q"]))
    obs.append(make_process_include())
    for pname, prog in meta.PROGRAMS.items():
        for _ in range(2 if not full else 6):
            vals = {k: rnd.randint(lo, hi) for k, (cls, lo, hi) in prog["lits"].items()}
            obs.append(make_process(pname, vals))
    return obs


def gates(tier, seed):
    from .gates import assembler_gates
    return assembler_gates(tier, seed)
