"""C17 -- assembler output depends only on the source text (DESIGN 4/C17)."""
import copy
import json
import os
import subprocess
import sys

from vlib.driver import Ob
from vlib.harness import REPO, assemble, image
from . import meta
import cocoasm.instruction as _ins
import cocoasm.virtualfiles.coco_file as _cf
from cocoasm.program import Program

PID = "C17"
BOUNDS = ("product runs in one interpreter: out0 = asm(P,v); asm(Q1); asm(Q2); out1 = asm(P,v) with P from 3 program "
          "templates (symbolic origin and operands), Q from accepted and rejected programs (rejected in the parse, symbol "
          "and translation phases); out0 == out1 asserted on integer observations (addresses, sizes, bytes, symbols, origin, "
          "name) for all values; the list of source lines is unchanged; module-level mutable state (INSTRUCTIONS, default "
          "argument instances of CodePackage / CoCoFile) is unchanged at the end of every path.  Enumerated, NOT decided by "
          "the solver: fresh process vs warm process and 3 PYTHONHASHSEEDs on concrete members (listing, symbol table, image)")
OUTSIDE = "more than two intervening programs; programs outside the three templates"
ASSUMPTIONS = []

QS = {
    "ok-small": [" ORG $3000", "Q1 LDA #1", " BRA Q1"],
    "ok-pcr": ["QA LEAX QB,PCR", " RMB 200", "QB NOP"],
    "bad-parse": ["Q1 LDA #1", " FOO 12", " NOP"],
    "bad-symbol": ["START LDA UNDEFINED", " NOP"],
    "bad-dup": ["START NOP", "START NOP"],
    "bad-operand": [" ORG $100", "MESSAGE LDA #$12345", " NOP"],
    "bad-mode": ["FINISH STA #5"],
    "same-labels": [" ORG $4000", "START NOP", "MESSAGE FCC 'X'", "FINISH JMP START", "CHROUT EQU 5"],
}


def snapshot():
    snap = {"instructions": tuple(_ins.INSTRUCTIONS), "n": len(_ins.INSTRUCTIONS)}
    defaults = []
    for fn in (_ins.CodePackage.__init__,):
        for dv in (fn.__defaults__ or ()):
            if hasattr(dv, "__dict__"):
                defaults.append((type(dv).__name__, sorted((k, repr(v)) for k, v in vars(dv).items())))
            else:
                defaults.append(repr(dv))
    for dv in _cf.CoCoFile._field_defaults.values():
        if hasattr(dv, "__dict__"):
            defaults.append((type(dv).__name__, sorted((k, repr(v)) for k, v in vars(dv).items())))
        else:
            defaults.append(repr(dv))
    snap["defaults"] = defaults
    return snap


def make(pname, qnames):
    prog = meta.PROGRAMS[pname]

    def body(ctx):
        texts, vals = meta.make_lits(ctx, prog)
        lines = [l + "\n" for l in meta.render(prog["body"], texts)]
        given = list(lines)
        before = snapshot()
        p0 = Program()
        from vlib.harness import Outcome
        out0 = assemble(lines)
        o0 = meta.observe(out0)
        for q in qnames:
            assemble(QS[q])
        out1 = assemble(lines)
        o1 = meta.observe(out1)
        after = snapshot()
        fault = None
        if lines != given:
            fault = "the list of source lines was modified"
        elif before != after:
            fault = "module-level state changed"
        elif not meta.same_obs(o0, o1):
            fault = "second run differs from the first"
        info = {"program": pname, "between": qnames, "outcome": out0.describe(), "fault": fault}
        if fault is None:
            return True, info
        return ctx.known(PID, {"part": "product"}, {"fault": fault}), info
    return Ob("C17:product:%s:%s" % (pname, "+".join(qnames) or "none"), body, timeout=600, tags={"part": "product"},
              text="asm(%s); %s; asm(%s)" % (pname, "; ".join("asm(%s)" % q for q in qnames), pname))


DUMP = r"""
import sys, json
sys.path.insert(0, %r)
from cocoasm.program import Program
lines = json.loads(sys.argv[1])
p = Program()
try:
    p.process(lines)
    print(json.dumps({"image": p.get_binary_array(), "listing": p.get_statements(), "symbols": p.get_symbol_table()}))
except Exception as e:
    print(json.dumps({"error": type(e).__name__}))
"""


def make_process(pname, values):
    prog = meta.PROGRAMS[pname]

    def body(ctx):
        texts = {}
        for name, (cls, lo, hi) in prog["lits"].items():
            from vlib.cut import Lit
            texts[name] = Lit(cls, name).real_text(abs(values[name]))
            if cls[0] == "N" and values[name] >= 0:
                texts[name] = texts[name]
        lines = [l + "\n" for l in meta.render(prog["body"], texts)]
        # warm process: after other programs
        for q in QS.values():
            assemble(q)
        p = Program()
        p.process(list(lines))
        warm = {"image": p.get_binary_array(), "listing": p.get_statements(), "symbols": p.get_symbol_table()}
        outs = []
        for seedv in ("0", "1", "12345"):
            env = dict(os.environ, PYTHONHASHSEED=seedv)
            r = subprocess.run(["/venv/bin/python", "-c", DUMP % REPO, json.dumps(lines)], capture_output=True, text=True, env=env, timeout=120)
            outs.append(json.loads(r.stdout.strip().splitlines()[-1]))
        ok = all(o == warm for o in outs)
        return ok, {"program": pname, "values": values, "fresh_equal_warm": [o == warm for o in outs]}
    ob = Ob("C17:process:%s:%s" % (pname, "-".join(str(values[k]) for k in sorted(values))), body, timeout=300,
            tags={"part": "process"}, text="fresh process x3 hash seeds vs warm process: %s %s" % (pname, values), r4=False)
    ob.native_only = True
    ob.ncases = 4
    return ob


def obligations(tier, seed):
    import random
    rnd = random.Random(seed + 51)
    obs = []
    full = tier == "thorough"
    combos = [[], ["ok-small"], ["bad-symbol", "ok-pcr"], ["bad-parse", "bad-dup"], ["same-labels", "bad-operand"], ["bad-mode", "ok-small"]]
    for pname in meta.PROGRAMS:
        for qs in (combos if full else combos[:4] if pname == "hello" else [combos[2], combos[4]]):
            obs.append(make(pname, qs))
    for pname, prog in meta.PROGRAMS.items():
        for _ in range(2 if not full else 6):
            vals = {k: rnd.randint(lo, hi) for k, (cls, lo, hi) in prog["lits"].items()}
            obs.append(make_process(pname, vals))
    return obs


def gates(tier, seed):
    from .gates import assembler_gates
    return assembler_gates(tier, seed)
