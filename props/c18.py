"""C18 -- relocating, renaming or reformatting a program changes output only as it must (DESIGN 4/C18)."""
import random

from vlib.driver import Ob
from vlib.harness import assemble
from vlib.oracle_6809 import decode
from . import meta

PID = "C18"
BOUNDS = ("two symbolic runs per obligation on 3 program templates (17, 15, 15 statements; symbolic origin and operands): "
          "(a) origin o vs o+D, both symbolic, every address >= $100 in both runs: every statement's bytes equal except "
          "absolute references to own labels, whose address field changes by exactly D; displacements equal; listing "
          "addresses and label values shift by D; (b) consistent label renamings (enumerated bijections to non-register "
          "names, incl. names that contain register letters or mnemonics and two-letter names made of register letters); (c) white space / comment / mnemonic-case "
          "variants of every line (enumerated text, symbolic values); (d) suffixes appended after the last statement "
          "(instructions, data, new labels): all bytes, addresses and symbol values of the prefix unchanged")
OUTSIDE = "label references with * or / (excluded by the property); renaming to register names (excluded by the property)"
ASSUMPTIONS = []


def fmt_variants():
    return {
        "tabs": lambda l, m, o: "%s\t%s\t%s" % (l, m, o),
        "wide": lambda l, m, o: "%s      %s        %s     " % (l, m, o),
        "comment": lambda l, m, o: "%s %s %s ; a comment, with $ymbols #1" % (l, m, o),
        "comment-quotes": lambda l, m, o: ("%s %s %s ; the user's \"note\" a/b" % (l, m, o)) if o else "%s %s %s" % (l, m, o),
        "lower": lambda l, m, o: "%s %s %s" % (l, m.lower(), o),
        "mixedcase": lambda l, m, o: "%s %s %s" % (l, m.capitalize(), o),
        "numeric-comments": lambda l, m, o: "%s %s %s" % (l, m, o) if (m == "FCC" or not o) else "%s %s %s ;0 ends the list, 2 more" % (l, m, o),
        "unique-comments": None,       # a different comment on every line (set up in obligations)
        "tab-comment": lambda l, m, o: "%s\t\t%s  \t%s\t; x" % (l, m, o) if (o and m != "FCC") else "%s\t%s\t%s" % (l, m, o),
    }


RENAMES = {
    # names that other assemblers would read as NUMBERS (hex digits with an H suffix, all-hex-letter words): here they are labels
    "numberlike": lambda n: {"START": "EACH", "PRINT": "BACH", "MESSAGE": "DEADH", "FINISH": "CH", "CHROUT": "AH", "BEGIN": "FACEH",
                             "LOOP": "BEEF", "TABLE": "CAFE", "VECT": "DEAD", "SUB": "ACEH", "LAST": "FEED", "K1": "ADH", "KOFF": "BABE",
                             "A1": "FADEH", "A2": "DECAF", "A3": "E0H", "A4": "B1B", "A5": "C0DE", "A6": "F00D"}.get(n, n + "H"),
    "upper-long": lambda n: "Z" + n + "Q",
    "digits": lambda n: n[0] + "9" + n[1:] + "7",
    "lower": lambda n: n.lower() + "x",
    "at": lambda n: n + "@1",
    # two-letter names made of accumulator / index register letters (none of them is a register name)
    "two-letter": lambda n: {"START": "AB", "PRINT": "BD", "MESSAGE": "DA", "FINISH": "XY", "CHROUT": "YX", "BEGIN": "BA", "LOOP": "DB",
                             "TABLE": "BD", "VECT": "AB", "SUB": "AD", "LAST": "UY", "K1": "BD", "KOFF": "AB", "A1": "DA", "A2": "XY",
                             "A3": "YX", "A4": "BA", "A5": "DB", "A6": "AD"}.get(n, n + "T"),
    "reglike": lambda n: {"START": "AX", "PRINT": "XY", "MESSAGE": "PCR1", "FINISH": "DP2", "CHROUT": "SU", "BEGIN": "BA", "LOOP": "YU",
                          "TABLE": "CCX", "VECT": "US", "SUB": "ADDA1", "LAST": "NOPE", "K1": "KX", "A1": "LDA1", "A2": "B2", "A3": "D3",
                          "A4": "S4", "A5": "U5", "A6": "PC6", "KOFF": "PCRSAV"}.get(n, n + "R"),
}


def rename_body(body, f):
    labels = [l for (l, _m, _o) in body if l]
    out = []
    import re
    for (l, m, o) in body:
        o2 = o
        if m not in ("FCC", "NAM"):
            for lab in sorted(labels, key=len, reverse=True):
                o2 = re.sub(r"(?<![A-Za-z0-9@$])%s(?![A-Za-z0-9@])" % re.escape(lab), "\x00" + lab + "\x01", o2)
            o2 = re.sub("\x00(.*?)\x01", lambda mm: f(mm.group(1)), o2)
        out.append((f(l) if l else l, m, o2))
    return out, {lab: f(lab) for lab in labels}


def make_shift(pname):
    prog = meta.PROGRAMS[pname]

    def body(ctx):
        texts, vals = meta.make_lits(ctx, prog)
        t2, o2 = ctx.lit("H4", "o2")
        ctx.assume(256 <= o2)
        ctx.assume(o2 <= 60000)
        D = o2 - vals["o"]
        out0 = assemble(meta.render(prog["body"], texts))
        out1 = assemble(meta.render(prog["body"], dict(texts, o=t2)))
        a, b = meta.observe(out0), meta.observe(out1)
        info = {"program": pname, "outcomes": [out0.describe(), out1.describe()]}
        if a["kind"] != "ok" or b["kind"] != "ok":
            ok = a["kind"] == b["kind"]
            if a["kind"] in ("internal", "loop"):
                return True, info
            fault = "accepted at one origin, rejected at the other"
        else:
            ok, fault = True, None
            seen_org = False
            for i, (x, y) in enumerate(zip(a["stmts"], b["stmts"])):
                lab, mn, op = prog["body"][i]
                if mn == "ORG":
                    seen_org = True
                if seen_org and y[0] - x[0] != D:
                    ok, fault = False, "listing address of statement %d does not move by D" % i
                    break
                if x[1] != y[1] or len(x[2]) != len(y[2]):
                    ok, fault = False, "size of statement %d changes" % i
                    break
                absref = i in prog["abs"] and prog["abs"][i] is not None
                if not absref and mn not in ("FDB",):
                    if x[2] != y[2]:
                        ok, fault = False, "bytes of statement %d (%s %s) change" % (i, mn, op)
                        break
                else:
                    if mn == "FDB":
                        continue
                    d0, d1 = decode(x[2]), decode(y[2])
                    if d0 is None or d1 is None or d0.op != d1.op or d0.mode != d1.mode or d0.length != d1.length:
                        ok, fault = False, "instruction of statement %d changes" % i
                        break
                    if (d1.value - d0.value - D) % 65536 != 0:
                        ok, fault = False, "absolute reference of statement %d does not change by D" % i
                        break
            if ok:
                for k in a["symbols"]:
                    is_equ = any(l == k and m == "EQU" for (l, m, _o) in prog["body"])
                    delta = b["symbols"][k] - a["symbols"][k]
                    if (is_equ and delta != 0) or (not is_equ and delta != D):
                        ok, fault = False, "symbol %s" % k
                        break
        info["fault"] = fault
        if ok:
            return True, info
        return ctx.known(PID, {"part": "shift"}, {"fault": fault}), info
    return Ob("C18:shift:%s" % pname, body, timeout=900, tags={"part": "shift"}, text="origin o vs o+D on program %s" % pname)


def make_pair(kind, pname, vname, transform):
    """two runs that must give identical observations (modulo a label bijection)"""
    prog = meta.PROGRAMS[pname]

    def body(ctx):
        texts, vals = meta.make_lits(ctx, prog)
        lines0 = meta.render(prog["body"], texts)
        body1, fmt, mapping, cut = transform(prog["body"])
        lines1 = meta.render(body1, texts, fmt)
        out0, out1 = assemble(lines0), assemble(lines1)
        a, b = meta.observe(out0), meta.observe(out1)
        info = {"program": pname, "variant": vname, "outcomes": [out0.describe(), out1.describe()], "sample": lines1[:6]}
        if a["kind"] in ("internal", "loop"):
            return True, info
        fault = None
        if a["kind"] != b["kind"]:
            fault = "outcome changes: %s vs %s" % (out0.describe(), out1.describe())
        elif a["kind"] == "ok":
            n = len(a["stmts"]) if cut is None else cut
            for i in range(n):
                x, y = a["stmts"][i], b["stmts"][i]
                if x[0] != y[0] or x[1] != y[1] or len(x[2]) != len(y[2]) or x[2] != y[2]:
                    fault = "statement %d differs" % i
                    break
            if fault is None:
                for k, v in a["symbols"].items():
                    k2 = mapping.get(k, k) if mapping else k
                    if k2 not in b["symbols"] or b["symbols"][k2] != v:
                        fault = "symbol %s" % k
                        break
            if fault is None and cut is None and (a["origin"] != b["origin"]):
                fault = "origin"
        info["fault"] = fault
        if fault is None:
            return True, info
        return ctx.known(PID, {"part": kind, "variant": vname}, {"fault": fault}), info
    return Ob("C18:%s:%s:%s" % (kind, pname, vname), body, timeout=900, tags={"part": kind}, text="%s %s on program %s" % (kind, vname, pname))


SUFFIXES = {
    "instr": [("", "LDA", "#1"), ("", "RTS", "")],
    "data": [("NEWD", "FCB", "1,2,3"), ("", "FDB", "$1234"), ("", "FCC", '"X"')],
    "labels": [("NEWL1", "NOP", ""), ("NEWL2", "JMP", "NEWL1"), ("", "LEAX", "NEWL1,PCR")],
    "far": [("", "RMB", "300"), ("FARL", "LDA", "#2")],
}


def obligations(tier, seed):
    obs = []
    full = tier == "thorough"
    for pname in meta.PROGRAMS:
        obs.append(make_shift(pname))
        for vname, f in fmt_variants().items():
            if not full and pname != "hello" and vname in ("wide", "mixedcase", "tab-comment"):
                continue
            if vname == "unique-comments":
                def tru(body):
                    counter = [0]

                    def fmt(l, m, o):
                        counter[0] += 1
                        return "%s %s %s" % (l, m, o) if (m == "FCC" or not o) else "%s %s %s ; note %d" % (l, m, o, counter[0])
                    return body, fmt, None, None
                obs.append(make_pair("format", pname, vname, tru))
                continue
            obs.append(make_pair("format", pname, vname, (lambda f: (lambda body: (body, f, None, None)))(f)))
        for rname, f in RENAMES.items():
            if not full and pname != "hello" and rname in ("digits", "at"):
                continue
            def tr(body, f=f):
                b1, mp = rename_body(body, f)
                return b1, None, mp, None
            obs.append(make_pair("rename", pname, rname, tr))
        for sname, suf in SUFFIXES.items():
            def tr2(body, suf=suf):
                core = [x for x in body if x[1] != "END"]
                return core + suf, None, None, len(core)
            obs.append(make_pair("suffix", pname, sname, tr2))
    return obs


def gates(tier, seed):
    from .gates import assembler_gates
    return assembler_gates(tier, seed)
