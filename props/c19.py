"""C19 -- INCLUDE is textual inclusion (DESIGN 4/C19)."""
import random

from vlib.driver import Ob
from vlib.harness import MemFS, assemble
from . import meta

PID = "C19"
BOUNDS = ("the 3 program templates of C17/C18 (symbolic origin and operands) split at statement boundaries into an "
          "including file and 1-3 included files, nested to depth 3, with the forward/backward label references, branches "
          "and PCR operands of the templates crossing the file boundaries (quick: 8 seeded splits per program + fixed "
          "edge splits; thorough: every single split point and 40 seeded multi-splits per program); the including program "
          "and the spliced program are assembled in the same path and compared on addresses, sizes, bytes, symbol values, "
          "origin and name.  Missing file and inclusion cycles must be diagnostics; END / ORG / SETDP / NAM / comment "
          "lines placed so that they fall inside an included file")
OUTSIDE = "include paths other than plain relative names; more than 3 included files"
ASSUMPTIONS = ["M8: SourceFile.read_assembly_contents is served from an in-memory map (the real file system only in replays)"]


def _fname(prefix, k):
    """prefix '@same': every included file has the same base name in a different directory (a/inc.asm, b/inc.asm ...)"""
    if prefix == "@same":
        return "%s/inc.asm" % "abcdefgh"[k]
    return prefix + "inc%d.asm" % k


def split_program(body, cuts, nest, prefix="", spell="INCLUDE"):
    """cuts: sorted statement indices [c1<c2<...] ; segments between consecutive cuts become included files.
    nest: if True, each included file includes the next one at its end (depth grows) instead of the main file doing so."""
    files = {}
    main = []
    if not nest:
        pos = 0
        k = 0
        bounds = list(cuts)
        i = 0
        # segments: [0,c1) main, [c1,c2) inc0, [c2,c3) main, [c3,c4) inc1 ...
        seg_main = True
        prev = 0
        for c in bounds + [len(body)]:
            seg = body[prev:c]
            if seg_main:
                main += seg
            else:
                name = _fname(prefix, k)
                files[name] = seg
                main.append(("", spell, name))
                k += 1
            seg_main = not seg_main
            prev = c
    else:
        # main = [0,c1) + INCLUDE inc0 + tail after last cut ; inc_i = segment i + INCLUDE inc_{i+1}
        bounds = list(cuts)
        main = list(body[:bounds[0]]) + [("", "INCLUDE", _fname(prefix, 0))]
        nested_spell = spell
        segs = [body[a:b] for a, b in zip(bounds, bounds[1:] + [len(body)])]
        for i, seg in enumerate(segs):
            files[_fname(prefix, i)] = list(seg) + ([("", nested_spell, _fname(prefix, i + 1))] if i + 1 < len(segs) else [])
    return main, files


def make(pname, cuts, nest, prefix="", spell="INCLUDE", extra=(), tag=""):
    """extra: (index, statement) pairs inserted into the program text before it is split (e.g. an END, a second ORG or a
    comment line that then falls inside an included file)"""
    prog = meta.PROGRAMS[pname]
    body_ = [x for x in prog["body"]]
    for idx, st in sorted(extra, reverse=True):
        body_.insert(idx, st)

    def body(ctx):
        texts, vals = meta.make_lits(ctx, prog)
        main, files = split_program(body_, cuts, nest, prefix, spell)
        fsmap = {name: [l + "\n" for l in meta.render(seg, texts)] for name, seg in files.items()}
        spliced = meta.render(body_, texts)
        with MemFS(fsmap):
            out_inc = assemble(meta.render(main, texts))
        out_flat = assemble(spliced)
        a, b = meta.observe(out_flat), meta.observe(out_inc)
        info = {"program": pname, "cuts": cuts, "nested": nest, "outcomes": [out_flat.describe(), out_inc.describe()]}
        if a["kind"] in ("internal", "loop"):
            return True, info
        ok = meta.same_obs(a, b)
        if ok:
            return True, info
        return ctx.known(PID, {"part": "split"}, {"cuts": cuts, "nested": nest}), info
    return Ob("C19:split:%s:%s%s%s" % (pname, "-".join(map(str, cuts)), ":nested" if nest else "", ((":" + prefix.strip("/")) if prefix else "") + ((":" + spell) if spell != "INCLUDE" else "") + ((":" + tag) if tag else "")), body, timeout=900,
              tags={"part": "split"}, text="program %s split at %s%s" % (pname, cuts, " (nested includes)" if nest else ""))


def make_twice():
    """the same (label-free) file included twice, once directly and once through another file: no cycle"""
    def body(ctx):
        t, v = ctx.lit("H2", "v")
        frag = [" CLR ,X+", " LDA #%s" % t, " STA ,X+"]
        fill = [" LDX #$0400", " INCLUDE frag.asm", " DECB"]
        main = [" ORG $2000", "START LDB #4", " INCLUDE frag.asm", " INCLUDE fill.asm", " INCLUDE frag.asm", " BNE START", " RTS"]
        flat = [" ORG $2000", "START LDB #4"] + frag + [" LDX #$0400"] + frag + [" DECB"] + frag + [" BNE START", " RTS"]
        with MemFS({"frag.asm": [l + "\n" for l in frag], "fill.asm": [l + "\n" for l in fill]}):
            out_inc = assemble(main)
        out_flat = assemble(flat)
        a, b = meta.observe(out_flat), meta.observe(out_inc)
        info = {"outcomes": [out_flat.describe(), out_inc.describe()]}
        if meta.same_obs(a, b) and a["kind"] == "ok":
            return True, info
        return ctx.known(PID, {"part": "twice"}, {}), info
    return Ob("C19:twice", body, timeout=300, tags={"part": "twice"}, text="frag.asm included three times (twice directly, once through fill.asm)")


def make_diag(did, fsmap, lines, text):
    def body(ctx):
        with MemFS({k: (v if isinstance(v, BaseException) else [l + "\n" for l in v]) for k, v in fsmap.items()}):
            out = assemble(lines)
        info = {"outcome": out.describe()}
        if out.kind == "diag":
            return True, info
        return ctx.known(PID, {"part": "diag", "case": did}, {"kind": out.kind, "exc": out.exc_name}), info
    return Ob("C19:diag:" + did, body, timeout=120, tags={"part": "diag", "case": did}, text=text, r4=False)


def obligations(tier, seed):
    rnd = random.Random(seed + 61)
    obs = []
    full = tier == "thorough"
    for pname, prog in meta.PROGRAMS.items():
        n = len(prog["body"])
        seen = set()

        def add(cuts, nest):
            key = (tuple(cuts), nest)
            if key not in seen and all(0 < c < n for c in cuts) and sorted(set(cuts)) == list(cuts):
                seen.add(key)
                obs.append(make(pname, list(cuts), nest))
        singles = range(1, n) if full else [1, 2, n // 2, n - 2, n - 1]
        for c in singles:
            add([c, min(n - 1, c + 2)] if c + 2 < n else [c], False)
        add([1], True)
        add([n - 1], True)
        for _ in range(40 if full else 8):
            k = rnd.choice([2, 3, 4, 5, 6])
            cuts = sorted(rnd.sample(range(1, n), min(k, n - 1)))
            add(cuts, rnd.random() < 0.4)
        add(sorted(rnd.sample(range(1, n), 3)), True)
        obs.append(make(pname, sorted(rnd.sample(range(1, n), 3)), True, prefix="lib/"))      # files in a sub-directory
        obs.append(make(pname, sorted(rnd.sample(range(1, n), 2)), False, prefix="src/inc/"))
        obs.append(make(pname, sorted(rnd.sample(range(1, n), 3)), True, prefix="../shared/"))   # parent-relative path
        obs.append(make(pname, sorted(rnd.sample(range(1, n), 2)), False, prefix="."))            # dot files (.inc0.asm)
        obs.append(make(pname, sorted(rnd.sample(range(1, n), 2)), True, prefix="./"))
        obs.append(make(pname, sorted(rnd.sample(range(1, n), 3)), True, prefix="@same"))         # a/inc.asm -> b/inc.asm -> c/inc.asm
        obs.append(make(pname, sorted(rnd.sample(range(1, n), 4)), False, prefix="@same"))
        obs.append(make(pname, sorted(rnd.sample(range(1, n), 3)), True, spell="include"))        # lower-case nested includes
        obs.append(make(pname, sorted(rnd.sample(range(1, n), 4)), True, spell="Include"))
        # statements that end or restart something, placed so that they fall INSIDE an included file
        h = n // 2
        for tag, st in (("end-inside", ("", "END", "")), ("org-inside", ("", "ORG", "$7000")), ("comment-inside", ("", "", "")),
                        ("setdp-inside", ("", "SETDP", "$00")), ("nam-inside", ("", "NAM", "INNER"))):
            obs.append(make(pname, [h - 1, h + 2], False, extra=[(h, st)], tag=tag))
            if full or tag in ("end-inside", "org-inside"):
                obs.append(make(pname, [h - 1, h + 2], True, extra=[(h, st)], tag=tag))
                obs.append(make(pname, [1, h + 1], False, extra=[(h, st)], tag=tag + "-last"))
    obs.append(make_twice())
    obs.append(make_diag("missing", {}, ["A NOP", " INCLUDE nothere.asm", "B NOP"], "INCLUDE of a missing file"))
    obs.append(make_diag("missing-nested", {"a.asm": ["C NOP", " INCLUDE b.asm"]}, ["A NOP", " INCLUDE a.asm"], "nested INCLUDE of a missing file"))
    obs.append(make_diag("directory", {"lib": IsADirectoryError(21, "Is a directory", "lib")}, ["A NOP", " INCLUDE lib"], "INCLUDE of a directory"))
    obs.append(make_diag("unreadable", {"x.asm": PermissionError(13, "Permission denied", "x.asm")}, [" INCLUDE x.asm"], "INCLUDE of an unreadable file"))
    obs.append(make_diag("not-a-dir", {"a.asm/b.asm": NotADirectoryError(20, "Not a directory", "a.asm/b.asm")}, [" INCLUDE a.asm/b.asm"], "INCLUDE through a non-directory"))
    obs.append(make_diag("self-cycle", {"a.asm": ["C NOP", " INCLUDE a.asm"]}, ["A NOP", " INCLUDE a.asm"], "a.asm includes itself"))
    obs.append(make_diag("cycle2", {"a.asm": ["C NOP", " INCLUDE b.asm"], "b.asm": [" INCLUDE a.asm"]}, [" INCLUDE a.asm"], "a.asm <-> b.asm"))
    obs.append(make_diag("cycle3", {"a.asm": [" INCLUDE b.asm"], "b.asm": [" INCLUDE c.asm"], "c.asm": ["X NOP", " INCLUDE a.asm"]},
                         [" NOP", " INCLUDE a.asm"], "a -> b -> c -> a"))
    return obs


def gates(tier, seed):
    from .gates import assembler_gates
    return assembler_gates(tier, seed)
