"""Drivers for the two command-line front ends on the in-memory host file system (M8)."""
import argparse
import contextlib
import importlib
import io
import sys

from vlib.harness import REPO, MemFS  # noqa: F401

assembler = importlib.import_module("assembler")
file_util = importlib.import_module("file_util")


def asm_args(**kw):
    d = dict(filename="p.asm", symbols=False, print=False, to_bin=None, to_cas=None, to_dsk=None, name=None,
             append=False, width=100)
    d.update(kw)
    return argparse.Namespace(**d)


def fu_args(**kw):
    d = dict(host_filename="src.img", append=False, list=False, to_bin=None, to_cas=None, to_dsk=None, files=None)
    d.update(kw)
    return argparse.Namespace(**d)


class Run:
    def __init__(self):
        self.exit = None       # None: returned normally; int: SystemExit code
        self.exc = None        # escaping exception (type name)
        self.out = ""


def call(main, args):
    r = Run()
    buf = io.StringIO()
    try:
        with contextlib.redirect_stdout(buf):
            main(args)
    except SystemExit as e:
        r.exit = e.code if isinstance(e.code, int) else (0 if e.code is None else 1)
    except Exception as e:  # noqa: BLE001
        r.exc = type(e).__name__ + ": " + str(e)[:200]
    r.out = buf.getvalue()
    return r


def run_assembler(**kw):
    return call(assembler.main, asm_args(**kw))


def run_file_util(**kw):
    return call(file_util.main, fu_args(**kw))
