"""Disk write scenarios shared by C07, C08 (and C09, C15)."""
import random

from vlib import oracle_decb as OD
from vlib.harness import install_m7
from . import files as F
from cocoasm.virtualfiles.disk import DiskConstants, DiskFile
from cocoasm.virtualfiles.virtual_file_exceptions import VirtualFileValidationError

ML_LENGTHS_QUICK = [0, 1, 246, 255, 256, 2289, 2293, 2294, 2295, 2296, 2299, 2304, 2550, 4597, 4598, 4600, 4603, 4608, 55000]
ML_LENGTHS_FULL = sorted(set([0, 1, 2, 245, 246, 255, 256, 257] + list(range(2284, 2306)) + list(range(4588, 4613)) +
                         list(range(6892, 6916)) + [65535]))


def fill_orders(seed):
    base = list(DiskConstants.GRANULE_FILL_ORDER)
    uniq = []
    for g in base:
        if g not in uniq:
            uniq.append(g)
    for g in range(68):
        if g not in uniq:
            uniq.append(g)
    orders = {"default": None, "reversed": list(reversed(uniq)), "ascending": list(range(68))}
    rnd = random.Random(seed + 17)
    for i in range(3):
        p = uniq[:]
        rnd.shuffle(p)
        orders["perm%d" % i] = p
    # a permutation that makes consecutive allocations non-adjacent and descending across track 17
    orders["straddle"] = [35, 30, 33, 34, 2, 67, 1, 66] + [g for g in range(68) if g not in (35, 30, 33, 34, 2, 67, 1, 66)]
    # chains whose link bytes take the extreme values: a link to granule 0 ($00) and links to granules 64-67 ($40-$43)
    orders["zerolink"] = [5, 0, 1, 3, 2] + [g for g in range(68) if g not in (5, 0, 1, 3, 2)]
    orders["high"] = [62, 63, 64, 65, 66, 67, 0] + [g for g in range(1, 62)]
    return orders


def scenarios(tier, seed):
    """(sid, specs, order name, allsym, full_addr_index)"""
    S = F.Spec
    out = []
    full = tier == "thorough"
    lengths = ML_LENGTHS_FULL if full else ML_LENGTHS_QUICK
    for L in lengths:
        out.append(("ml:%d" % L, [S("PROG", L, "ml")], "default", 16, 0))
    for L in ([0, 1, 253, 2301, 2302, 2304, 4605, 4606] if not full else [0, 1, 2, 256, 2300, 2301, 2302, 2303, 2304, 2305, 4604, 4605, 4606, 4608]):
        out.append(("basic:%d" % L, [S("BAS", L, "basic", ext="BAS")], "default", 16, 0))
    for L in ([0, 1, 256, 1280, 2303, 2304, 2305, 2816, 4608] if not full else [0, 1, 255, 256, 2303, 2304, 2305, 4607, 4608, 4609]):
        out.append(("ascii:%d" % L, [S("TXT", L, "ascii", ext="TXT")], "default", 16, 0))
    for nm, ext in [("A", "B"), ("hello", "bin"), ("ABCDEFGH", "XYZ"), ("ABCDEFGHIJKL", "BIN"), ("Mix3d", ""), ("N1", "TOOLONG")]:
        out.append(("name:%s.%s" % (nm, ext), [S(nm, 5, "ml", ext=ext)], "default", 16, 0))
    for oname in ["reversed", "perm0", "straddle"] + (["ascending", "perm1", "perm2"] if full else []):
        out.append(("order:%s:2297" % oname, [S("STRAD", 2297, "ml")], oname, 16, 0))
        out.append(("order:%s:4700" % oname, [S("THREE", 4700, "ml")], oname, 16, 0))
        out.append(("order:%s:two" % oname, [S("ONE", 2300, "ml"), S("TWO", 30, "basic", ext="BAS")], oname, 16, 1))
    for oname in ["zerolink", "high"]:
        out.append(("order:%s:4700" % oname, [S("THREE", 4700, "ml")], oname, 16, 0))
        out.append(("order:%s:ascii5000" % oname, [S("TXT", 5000, "ascii", ext="TXT")], oname, 16, 0))
        out.append(("order:%s:basic5000+ml" % oname, [S("BAS", 5000, "basic", ext="BAS"), S("ML", 2400, "ml")], oname, 16, 1))
        out.append(("order:%s:ascii2400+ascii" % oname, [S("TXT", 2400, "ascii", ext="TXT"), S("TXT2", 4700, "ascii", ext="TXT")], oname, 16, 0))
    out.append(("two:5+2294", [S("ONE", 5, "ml"), S("TWO", 2294, "ml")], "default", 16, 1))
    out.append(("mlff:40", [S("MLFF", 40, "mlff")], "default", 16, 0))
    out.append(("mlff:2300", [S("MLFF", 2300, "mlff")], "perm0", 16, 0))
    out.append(("two:2299+2299", [S("ONE", 2299, "ml"), S("TWO", 2299, "ml")], "default", 16, 1))
    for oname in ["straddle", "perm0", "reversed"]:
        out.append(("order:%s:2299" % oname, [S("FILL", 2299, "ml")], oname, 16, 0))
        out.append(("order:%s:2301" % oname, [S("NEAR", 2301, "ml")], oname, 16, 0))
        out.append(("order:%s:basic2302" % oname, [S("NEARB", 2302, "basic", ext="BAS")], oname, 16, 0))
    out.append(("three:mixed", [S("ONE", 300, "ml"), S("TWO", 10, "basic", ext="BAS"), S("TXT", 2305, "ascii", ext="TXT")], "default", 16, 0))
    out.append(("allsym:64", [S("SYM", 64, "ml", allsym=64)], "default", 64, 0))
    if full:
        out.append(("allsym:600", [S("SYM", 600, "ml", allsym=600)], "default", 600, 0))
        out.append(("three:big", [S("A", 4603, "ml"), S("B", 2294, "ml"), S("C", 6900, "ml")], "perm1", 16, 2))
    return out


def write(ctx, specs, order, allsym, full_index, orders):
    """run the real writer; -> (buffer or None, descs, error text)"""
    install_m7()
    fl, descs = F.build(ctx, specs, allsym_limit=allsym, full_addr_index=full_index)
    d = DiskFile(granule_fill_order=orders[order])
    try:
        d.add_files(fl)
    except VirtualFileValidationError as e:
        return None, descs, str(e)
    except Exception as e:  # noqa: BLE001 - an internal error while writing: nothing usable was written
        return None, descs, "%s: %s" % (type(e).__name__, e)
    return d.get_buffer(), descs, None
