"""File-set scenarios shared by the container properties (C06-C09, C11, C14-C16)."""
from vlib.harness import REPO  # noqa: F401  (sets sys.path)
from cocoasm.values import NumericValue
from cocoasm.virtualfiles.coco_file import CoCoFile


class Spec:
    """one file of a scenario.  kind: 'ml' (type 2, dtype 0) | 'basic' (0, 0) | 'ascii' (0, $FF) | 'data' (1, $FF) |
    'sym' (type symbolic 0..3, dtype symbolic in {0,$FF})"""

    def __init__(self, name, length, kind="ml", ext="BIN", allsym=None):
        self.name, self.length, self.kind, self.ext = name, length, kind, ext
        self.allsym = allsym

    def text(self):
        nm = self.name.label if isinstance(self.name, SymName) else self.name
        return "%s.%s/%s/%d" % (nm, self.ext, self.kind, self.length)


class SymName:
    """a file name with ONE symbolic character (printable ASCII without the blank, $21..$7E) at position pos of base;
    the solver ranges over the character (the reader's bytes->str conversion realises it, so the path tree has one
    leaf per character and 'confirmed' means all 94 were explored)"""

    def __init__(self, base, pos, lo=33, hi=126):
        self.base, self.pos, self.lo, self.hi = base, pos, lo, hi
        self.label = base[:pos] + "<?>" + base[pos + 1:]

    def make(self, ctx, prefix):
        c = ctx.int(prefix + "_ch%d" % self.pos, self.lo, self.hi)
        return self.base[:self.pos] + chr(c) + self.base[self.pos + 1:]


def sym_positions(length, allsym_limit):
    if length <= allsym_limit:
        return list(range(length))
    pos = {0, 1, 2, length - 1, length - 2}
    for b in (254, 255, 256, 509, 510, 511, 2293, 2294, 2295, 2298, 2299, 2303, 2304, 2305, 4597, 4598, 4603, 4607, 4608):
        for d in (-1, 0, 1):
            if 0 <= b + d < length:
                pos.add(b + d)
    return sorted(p for p in pos if 0 <= p < length)


def build(ctx, specs, prefix="f", allsym_limit=16, full_addr_index=0):
    """-> (list of CoCoFile with symbolic fields, list of plain descriptions).
    Addresses: symbolic over 0..65535 for the file at full_addr_index, over $1000..$FFFF for the others (the hex
    rendering forks on the digit count; the product over several files would explode the path count)."""
    files, descs = [], []
    for i, s in enumerate(specs):
        p = "%s%d" % (prefix, i)
        if s.kind == "ml":
            ft, dt = 2, 0
        elif s.kind == "basic":
            ft, dt = 0, 0
        elif s.kind == "ascii":
            ft, dt = 0, 0xFF
        elif s.kind == "data":
            ft, dt = 1, 0xFF
        elif s.kind == "mlff":
            ft, dt = 2, 0xFF            # machine language with the ASCII flag set (arrives through conversions)
        else:
            ft = ctx.int(p + "_type", 0, 3)
            dsel = ctx.int(p + "_dt", 0, 1)
            dt = dsel * 255
        lo_addr = 0 if (i == full_addr_index or full_addr_index is None) else 4096
        load = ctx.int(p + "_load", lo_addr, 65535)
        exe = ctx.int(p + "_exec", lo_addr, 65535)
        limit = s.allsym if s.allsym is not None else allsym_limit
        pos = set(sym_positions(s.length, limit))
        data = []
        for j in range(s.length):
            if j in pos:
                data.append(ctx.int("%s_b%d" % (p, j), 0, 255))
            else:
                data.append((j * 7 + 3 + i * 29) % 251)
        gap = 0
        if s.kind == "sym":
            gap = ctx.int(p + "_gap", 0, 1) * 255      # a file read from a tape recorded with gaps carries $FF here
        name = s.name.make(ctx, p) if isinstance(s.name, SymName) else s.name
        cf = CoCoFile(name=name, extension=s.ext, type=NumericValue(ft), data_type=NumericValue(dt),
                      load_addr=NumericValue(load), exec_addr=NumericValue(exe), data=data, gaps=NumericValue(gap))
        files.append(cf)
        descs.append({"name": name, "ext": s.ext, "ftype": ft, "dtype": dt, "load": load, "exec": exe,
                      "data": list(data), "gap": gap})
    return files, descs


def norm_name(s):
    return s.replace("\0", "").rstrip(" ").upper()[:8]


def same_file(got, d, check_ext=False, ml_only_addrs=False):
    """a CoCoFile read back equals description d (names case-folded / padded / truncated to 8)"""
    if norm_name(got.name) != norm_name(d["name"]):
        return False
    if check_ext and got.extension.strip().upper() != d["ext"].strip().upper()[:3]:
        return False
    if got.type.int != d["ftype"] or got.data_type.int != d["dtype"]:
        return False
    if not ml_only_addrs or d["ftype"] == 2:
        if got.load_addr.is_none() or got.exec_addr.is_none():
            return False
        if got.load_addr.int != d["load"] or got.exec_addr.int != d["exec"]:
            return False
    if len(got.data) != len(d["data"]):
        return False
    return got.data == d["data"]


def same_list(gots, descs, **kw):
    if len(gots) != len(descs):
        return False
    for g, d in zip(gots, descs):
        if not same_file(g, d, **kw):
            return False
    return True


def describe(gots):
    out = []
    for g in gots:
        try:
            out.append({"name": g.name, "type": g.type.int, "dtype": g.data_type.int,
                        "load": None if g.load_addr.is_none() else g.load_addr.int,
                        "exec": None if g.exec_addr.is_none() else g.exec_addr.int, "len": len(g.data),
                        "head": g.data[:6]})
        except Exception as e:  # noqa: BLE001
            out.append(repr(e))
    return out
