"""Run-time gates shared by the property modules: model self-test (differential vs CPython), M5 lemma, M7 scan."""
from vlib import models


def assembler_gates(tier, seed):
    n = models.selftest(seed=seed, n=(4 if tier == "quick" else 60))
    return {"model_selftest_comparisons": n, "m5_lemma": models.gate_m5((2,))}


def container_gates(tier, seed):
    from vlib.harness import scan_original_buffer
    reads = scan_original_buffer()
    if reads:
        raise AssertionError("M7 side condition violated: original_buffer is read at %s" % reads)
    return {"m7_original_buffer_reads": reads, "m5_lemma": models.gate_m5((2, 256, 2304)),
            "model_selftest_comparisons": models.selftest(seed=seed, n=(2 if tier == "quick" else 40))}
