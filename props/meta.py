"""Shared helpers for the relational properties C17, C18, C19: programs with symbolic literals rendered to lines,
integer observations of an assembly run."""
from vlib.harness import assemble, image, stmt_bytes, symbols

# programs: list of (label, mnemonic, operand) with {name} placeholders; LITS: name -> (class, lo, hi)
PROGRAMS = {
    "hello": {
        "lits": {"o": ("H4", 256, 60000), "v": ("H2", 0, 255), "w": ("D3", 0, 999)},
        "body": [("", "NAM", "HELLO"), ("CHROUT", "EQU", "$A30A"), ("", "ORG", "{o}"), ("START", "JSR", "$A928"),
                 ("", "LDX", "#MESSAGE"), ("PRINT", "LDA", ",X+"), ("", "CMPA", "#{v}"), ("", "BEQ", "FINISH"),
                 ("", "JSR", "CHROUT"), ("", "LDB", "{w},Y"), ("", "BRA", "PRINT"), ("MESSAGE", "FCC", '"HELLO"'),
                 ("", "FDB", "$0"), ("FINISH", "JSR", "[CHROUT]"), ("", "BEQ", "FINISH"), ("", "JMP", "START"),
                 ("", "END", "START")],
        "abs": {3: None, 4: "MESSAGE", 15: "START"},     # statement index -> label referenced absolutely
    },
    "pcr": {
        "lits": {"o": ("H4", 256, 60000), "v": ("D5", 256, 65535)},
        "body": [("", "ORG", "{o}"), ("BEGIN", "LEAX", "TABLE,PCR"), ("", "LDD", "#{v}"), ("LOOP", "STD", ",X++"),
                 ("", "LDA", "TABLE+2,PCR"), ("", "LBNE", "LOOP"), ("", "LDY", "[VECT,PCR]"), ("", "JSR", "SUB"),
                 ("", "RTS", ""), ("SUB", "CLR", "VECT"), ("", "RTS", ""), ("TABLE", "FDB", "1,2,3"),
                 ("VECT", "FDB", "$1234"), ("", "FCB", "1,2"), ("", "FCB", "3,4,"), ("", "FDB", "$10,$20,"), ("LAST", "NOP", "")],
        "abs": {7: "SUB", 9: "VECT"},
    },
    "mixed": {
        "lits": {"o": ("H4", 256, 60000), "v": ("D3", 0, 255), "x": ("N3", -128, 127)},
        "body": [("", "ORG", "{o}"), ("K1", "EQU", "$20"), ("KOFF", "EQU", "3"), ("A1", "LDA", "#{v}"), ("", "STA", "<K1"), ("A2", "LDB", "{x},U"),
                 ("", "LDA", "KOFF,U"), ("", "LDB", "K1,Y"),
                 ("", "PSHS", "A,B,X"), ("", "TFR", "X,Y"), ("A3", "LDX", "#A1"), ("", "STX", "A4"), ("", "BSR", "A5"),
                 ("", "PULS", "A,B,X,PC"), ("A4", "FDB", "$FFFF"), ("A5", "INC", "A4"), ("", "LBRA", "A2"), ("A6", "SWI", "")],
        "abs": {10: "A1", 11: "A4", 15: "A4"},
    },
}


def make_lits(ctx, prog):
    texts, vals = {}, {}
    for name, (cls, lo, hi) in prog["lits"].items():
        t, v = ctx.lit(cls, name)
        ctx.assume(lo <= v)
        ctx.assume(v <= hi)
        texts[name], vals[name] = t, v
    return texts, vals


def render(body, texts, fmt=None):
    lines = []
    for (lab, mn, op) in body:
        op = op.format(**texts) if "{" in op else op
        if fmt:
            lines.append(fmt(lab, mn, op))
        else:
            lines.append("%s %s %s" % (lab, mn, op))
    return lines


def observe(out):
    """integer observations of an assembly outcome (comparable between runs, symbolic friendly)"""
    if not out.ok:
        return {"kind": out.kind, "exc": out.exc_name}
    p = out.program
    stmts = []
    for st in p.statements:
        stmts.append((st.code_pkg.address.int, st.code_pkg.size, stmt_bytes(st)))
    return {"kind": "ok", "stmts": stmts, "symbols": symbols(p), "origin": None if p.origin.is_none() else p.origin.int,
            "name": p.name}


def same_obs(a, b):
    if a["kind"] != b["kind"]:
        return False
    if a["kind"] != "ok":
        return a["exc"] == b["exc"]
    if len(a["stmts"]) != len(b["stmts"]):
        return False
    for x, y in zip(a["stmts"], b["stmts"]):
        if x[0] != y[0] or x[1] != y[1] or len(x[2]) != len(y[2]) or x[2] != y[2]:
            return False
    if sorted(a["symbols"]) != sorted(b["symbols"]):
        return False
    for k in a["symbols"]:
        if a["symbols"][k] != b["symbols"][k]:
            return False
    return a["origin"] == b["origin"] and a["name"] == b["name"]
