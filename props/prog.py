"""
Program templates shared by C02, C03, C13, C17, C18, C19: a list of items with symbolic origin, gaps and operand
values.  Items:
    ("org", cls)                         ORG <literal of class cls>           var o
    ("gap", name, hi)                    RMB <D5 literal>                     var name in [0, hi]
    ("ins", label, mnemonic, operand)    a fixed statement; operand may contain {name} placeholders of ("lit", cls)
    ("lit", name, cls)                   declares a literal variable used in later operands
Addresses are computed independently of the listing: origin + sum of the byte counts actually emitted.
"""
from vlib.harness import assemble, stmt_bytes


class Template:
    def __init__(self, tid, items, text=None):
        self.tid, self.items = tid, items
        self.text = text or " | ".join(self._show(i) for i in items)

    @staticmethod
    def _show(i):
        if i[0] == "org":
            return "ORG <%s>" % i[1]
        if i[0] == "gap":
            return "RMB <%s<=%d>" % (i[1], i[2])
        if i[0] == "ins":
            return ("%s %s %s" % (i[1], i[2], i[3])).strip()
        return ""


class Run:
    pass


def run(ctx, tpl, max_addr=65535):
    """assemble the template; returns Run with out, stmts (per emitted statement: dict), vals"""
    r = Run()
    vals = {}
    texts = {}
    lines = []
    meta = []
    for it in tpl.items:
        if it[0] == "lit":
            t, v = ctx.lit(it[2], it[1])
            if len(it) > 3:
                ctx.assume(it[3] <= v)
                ctx.assume(v <= it[4])
            texts[it[1]] = t
            vals[it[1]] = v
    total = 0
    for it in tpl.items:
        if it[0] == "org":
            t, o = ctx.lit(it[1], "o")
            vals["o"] = o
            lines.append(" ORG %s" % t)
            meta.append({"kind": "org"})
        elif it[0] == "gap":
            t, n = ctx.lit("D5", it[1])
            ctx.assume(n <= it[2])
            vals[it[1]] = n
            lines.append(" RMB %s" % t)
            meta.append({"kind": "gap", "n": n})
            total = total + n
        elif it[0] == "ins":
            lines.append("%s %s %s" % (it[1], it[2], it[3].format(**texts)))
            meta.append({"kind": "ins", "label": it[1], "m": it[2], "operand": it[3]})
            total = total + 5
    o = vals.get("o", 0)
    ctx.assume(o + total <= max_addr)
    r.lines, r.vals, r.meta = lines, vals, meta
    out = assemble(lines)
    r.out = out
    if not out.ok:
        return r
    st = out.program.statements
    addr = o
    for i, m in enumerate(meta):
        m["listing_addr"] = st[i].code_pkg.address.int
        m["size"] = st[i].code_pkg.size
        m["max_size"] = st[i].code_pkg.max_size
        m["addr"] = addr
        if m["kind"] == "gap":
            m["n_emitted"] = m["n"]
        elif m["kind"] == "org":
            m["n_emitted"] = 0
        else:
            m["stmt"] = st[i]
        addr_next = None
        if m["kind"] == "ins":
            m["b"] = None  # lazily via bytes_of
        m["_st"] = st[i]
        if m["kind"] == "ins":
            try:
                m["b"] = stmt_bytes(st[i])
            except Exception as e:  # noqa: BLE001 -- image generation itself failed: an internal error
                from vlib.harness import Outcome, _site
                r.out = Outcome("internal", out.program, e, _site(e.__traceback__))
                return r
            m["n_emitted"] = len(m["b"])
        addr = addr + m["n_emitted"]
    r.end = addr
    r.labels = {m["label"]: m["addr"] for m in meta if m.get("label")}
    return r
