"""
Statement-level cases shared by C01, C02(a), C12, C13: one instruction statement (plus at most ORG / EQU / a label)
through the real Program.process, value symbolic over its whole spelling class.
"""
import random

from vlib import shapes as S
from vlib.harness import assemble, stmt_bytes
from vlib.engine import assume as _assume
from vlib.oracle_6809 import IDX_REGS, canonical, decode, pair_byte, stack_mask


def _opcode_table():
    """(canonical op, mode) -> opcode bytes, read off the datasheet decoder"""
    t = {}
    for pre in (None, 0x10, 0x11):
        for o in range(256):
            if pre is None and o in (0x10, 0x11):
                continue
            bs = ([pre] if pre is not None else []) + [o]
            d = decode(bs + [0x84, 0, 0, 0])
            if d is not None:
                mode = {"imm8": "imm", "imm16": "imm", "rel8": "rel", "rel16": "rel", "regs": "imm", "pair": "imm"}.get(d.mode, d.mode)
                t[(d.op, mode)] = bs
    return t


OPCODES = _opcode_table()


def opcodes_for(m):
    return {mode: bs for (op, mode), bs in OPCODES.items() if op == canonical(m)}


class Shape:
    """m: mnemonic; form: key of shapes.FORMS or 'regs'/'pair'/'raw'; reg: index register; src: how the value is
    written: ('lit', cls) | ('equ', cls, 'before'|'after') | ('lbl', 'before'|'after') | None"""

    def __init__(self, m, form, reg=None, src=None, regs=None, raw=None, expect_valid=None):
        self.m, self.form, self.reg, self.src, self.regs, self.raw = m, form, reg, src, regs, raw
        self.expect_valid = expect_valid

    @property
    def sid(self):
        parts = [self.m, self.form]
        if self.reg:
            parts.append(self.reg)
        if self.src:
            parts.append("-".join(self.src))
        if self.regs is not None:
            parts.append("+".join(self.regs) or "none")
        if self.raw is not None:
            parts.append(repr(self.raw))
        return ":".join(parts)

    def tags(self):
        return {"m": self.m, "form": self.form, "reg": self.reg, "src": self.src[0] if self.src else None,
                "raw": self.raw if isinstance(self.raw, str) else None,
                "cls": (self.src[1] if self.src and self.src[0] in ("lit", "equ") else None),
                "where": (self.src[-1] if self.src and self.src[0] in ("equ", "lbl") else None),
                "mclass": S.mclass(self.m), "oplen": S.opcode_len(self.m)}

    def text(self):
        if self.form == "regs":
            return "%s %s" % (self.m, ",".join(self.regs))
        if self.form == "pair":
            return "%s %s,%s" % (self.m, self.regs[0], self.regs[1])
        if self.form == "raw":
            return "%s %s" % (self.m, self.raw)
        if self.form == "line":
            return repr(self.raw)
        vt = ""
        if self.src:
            if self.src[0] == "lit":
                vt = "<%s>" % self.src[1]
            elif self.src[0] == "equ":
                vt = "SYM(=<%s> %s)" % (self.src[1], self.src[2])
            else:
                vt = "LBL(%s)" % self.src[-1]
        return "%s %s" % (self.m, S.operand_text(self.form, vt, self.reg or "X"))


class Case:
    pass


def build(ctx, sh):
    """assemble the shape; returns a Case with out, kind, b, n, size, max_size, v, and the env for known findings"""
    c = Case()
    m = sh.m
    v = None
    lines = None
    k = 0
    if sh.form == "regs":
        lines = [" %s %s" % (m, ",".join(sh.regs))]
    elif sh.form == "pair":
        lines = [" %s %s,%s" % (m, sh.regs[0], sh.regs[1])]
    elif sh.form == "line":
        lines = []
        for raw in (sh.raw if isinstance(sh.raw, list) else [sh.raw]):
            if "{v}" in raw:
                t, v = ctx.lit(sh.src[1], "v")
                raw = raw.replace("{v}", t)
            lines.append(raw)
        k = sh.k if hasattr(sh, "k") else 0
    elif sh.form == "raw":
        raw = sh.raw
        if "{v}" in raw:
            t, v = ctx.lit(sh.src[1], "v")
            raw = raw.replace("{v}", t)
        lines = [" %s %s" % (m, raw)]
    elif sh.src is None:
        lines = [" %s %s" % (m, S.operand_text(sh.form, "", sh.reg or "X"))]
    elif sh.src[0] == "lit":
        t, v = ctx.lit(sh.src[1], "v")
        lines = [" %s %s" % (m, S.operand_text(sh.form, t, sh.reg or "X"))]
    elif sh.src[0] == "equ":
        t, v = ctx.lit(sh.src[1], "v")
        stmt = " %s %s" % (m, S.operand_text(sh.form, "SYM", sh.reg or "X"))
        if sh.src[2] == "before":
            lines, k = ["SYM EQU %s" % t, stmt], 1
        else:
            lines, k = [stmt, "SYM EQU %s" % t], 0
    elif sh.src[0] == "lbl":
        t, o = ctx.lit("H4", "o")
        ctx.assume(o <= 65500)          # the program must fit below $FFFF (address wrap is C02's subject)
        stmt = " %s %s" % (m, S.operand_text(sh.form, "LBL", sh.reg or "X"))
        if sh.src[1] == "before":
            lines, k = [" ORG %s" % t, "LBL NOP", stmt], 2
            v = o
        else:
            lines, k = [" ORG %s" % t, stmt, "LBL NOP"], 1
            v = None  # o + size, filled below
        c.o = o
    c.lines, c.k = lines, k
    out = assemble(lines)
    c.out, c.kind = out, out.kind
    c.b, c.n, c.size, c.max_size = None, None, None, None
    if out.ok:
        st = out.program.statements[k] if k < len(out.program.statements) else None
        if st is None:
            c.env = {"kind": c.kind}
            c.info = {"lines": lines, "outcome": out.describe()}
            c.v = v
            return c
        try:
            c.b = stmt_bytes(st)
        except Exception as e:  # noqa: BLE001 -- image generation failed after a successful assembly: an internal error
            from vlib.harness import Outcome, _site
            out = Outcome("internal", out.program, e, _site(e.__traceback__))
            c.out, c.kind, c.b = out, "internal", None
            c.v = v
            c.env = {"v": v, "b": None, "n": None, "size": None, "max_size": None, "kind": "internal", "exc": out.exc_name,
                     "site": out.site, "m": m, "form": sh.form, "reg": sh.reg, "msg": str(e)}
            c.info = {"lines": lines, "outcome": out.describe() + " (get_binary_array)", "bytes": None, "size": None}
            return c
        c.n = len(c.b)
        c.size = st.code_pkg.size
        c.max_size = st.code_pkg.max_size
        if sh.src and sh.src[0] == "lbl" and sh.src[1] == "after":
            v = c.o + c.size          # address of the following statement (listing layout is C02's subject)
        ctx.check_hits(required=(sh.src is not None and sh.form != "raw"))
    elif sh.src and sh.src[0] == "lbl" and sh.src[1] == "after":
        # rejected: the label's address is the origin plus the size the statement would have had
        width = 1 if (sh.form == "imm" and S.imm_width(m) == 8) or sh.form == "dir" else 3 if sh.form == "extind" else 2
        v = c.o + S.opcode_len(m) + width
    c.v = v
    c.env = {"v": v, "b": c.b, "n": c.n, "size": c.size, "max_size": c.max_size, "kind": c.kind,
             "exc": out.exc_name, "site": out.site, "m": m, "form": sh.form, "reg": sh.reg,
             "rr": (IDX_REGS.index(sh.reg) * 32 if sh.reg in IDX_REGS else None),
             "o": getattr(c, "o", None), "msg": (str(out.exc) if out.exc is not None else None),
             "OP": opcodes_for(m), "oplen": S.opcode_len(m), "ind": (16 if sh.form.startswith("[") else 0),
             "w16": S.mclass(m) in ("reg16", "reg16p"), "cls": (sh.src[1] if sh.src and sh.src[0] != "lbl" else None),
             "src": (sh.src[0] if sh.src else None), "raw": sh.raw if isinstance(sh.raw, str) else None}
    c.info = {"lines": lines, "outcome": out.describe(), "bytes": c.b, "size": c.size}
    return c


def is_valid(sh, v):
    """Appendix A validity of the shape for value v (bool-like)"""
    if sh.expect_valid is not None:
        return sh.expect_valid
    if sh.form == "regs":
        return len(sh.regs) > 0 and stack_mask(sh.m, sh.regs) is not None and sh.m in S.STACK
    if sh.form == "pair":
        return pair_byte(sh.regs[0], sh.regs[1]) is not None and sh.m in S.PAIR
    return S.valid(sh.m, sh.form, v)


def semantic_ok(sh, v, b):
    """datasheet decode of b is exactly the instruction the source names (Appendix A); bool-like"""
    d = decode(b)
    if d is None:
        return False
    if d.length != len(b):
        return False
    if d.op != canonical(sh.m):
        return False
    form = sh.form
    if form == "inh":
        return d.mode == "inh"
    if form == "regs":
        return d.mode == "regs" and d.value == stack_mask(sh.m, sh.regs)
    if form == "pair":
        return d.mode == "pair" and d.value == pair_byte(sh.regs[0], sh.regs[1])
    if form == "imm":
        if S.imm_width(sh.m) == 8:
            return d.mode == "imm8" and d.value == v % 256
        return d.mode == "imm16" and d.value == v % 65536
    if form == "mem":
        if d.mode == "dir":
            return d.value == v
        return d.mode == "ext" and d.value == v
    if form == "dir":
        return d.mode == "dir" and d.value == v
    if form == "ext":
        return d.mode == "ext" and d.value == v
    if d.mode != "idx":
        return False
    x = d.idx
    ind = 1 if form.startswith("[") or form == "extind" else 0
    core = form.strip("[]")
    if form == "extind":
        return x["kind"] == "extind" and x["address"] == v
    if x["ind"] != ind:
        return False
    if core in ("pcr",):
        return x["kind"] == "pcr" and (x["offset"] - v) % 65536 == 0
    if x["reg"] != IDX_REGS.index(sh.reg):
        return False
    if core in ("idx0", "idxR"):
        return x["kind"] == "const" and x["offset"] == 0
    if core == "idxv":
        return x["kind"] == "const" and (x["offset"] - v) % 65536 == 0
    if core in ("accA", "accB", "accD", "inc1", "inc2", "dec1", "dec2"):
        return x["kind"] == core
    return False


def wellformed(sh, b, size):
    """C12: bytes decode as exactly one complete instruction of that mnemonic, consuming all of them; count == size"""
    d = decode(b)
    if d is None:
        return False
    return d.length == len(b) and d.op == canonical(sh.m) and len(b) == size


# ---- shape corpus --------------------------------------------------------------------------------------------
def value_sources(form, tier, m):
    """how the operand value is written, per form"""
    neg_ok = form in ("imm", "idxv", "[idxv]", "pcr", "[pcr]")
    if tier == "thorough":
        lits = [c for c in S.LIT_ALL if neg_ok or not c.startswith("N")]
    else:
        lits = [c for c in S.LIT_QUICK if neg_ok or not c.startswith("N")]
    src = [("lit", c) for c in lits]
    src += [("equ", "D5", "before"), ("equ", "H4", "after")]
    if tier == "thorough":
        src += [("equ", "H2", "before"), ("equ", "D3", "after"), ("equ", "N5", "before")] if neg_ok else \
               [("equ", "H2", "before"), ("equ", "D3", "after")]
    if form in ("imm", "mem", "ext", "extind", "dir"):
        src += [("lbl", "before"), ("lbl", "after")]
    return src


def corpus(tier, seed, what="valid"):
    """list of Shapes.  quick: every mnemonic x each of its modes once, every form x class representatives;
    thorough: the full cross product."""
    rnd = random.Random(seed)
    out = []
    seen = set()

    def add(sh):
        if sh.sid not in seen:
            seen.add(sh.sid)
            out.append(sh)

    full = tier == "thorough"
    reps = set(sum(S.CLASS_REPS.values(), []))
    for m in S.MNEMONICS:
        md = S.MODES[m]
        if "inh" in md:
            add(Shape(m, "inh"))
        if m in S.STACK:
            for regs in S.stack_lists(tier, rnd):
                add(Shape(m, "regs", regs=regs))
            add(Shape(m, "regs", regs=[]))
        if m in S.PAIR:
            for a, b in S.pairs():
                add(Shape(m, "pair", regs=[a, b]))           # all 100 ordered pairs: cheap
        if "rel8" in md or "rel16" in md:
            continue  # branches: C03
        heavy = full or m in reps
        for form in S.FORMS:
            if form == "inh" or not S.has_form(m, form):
                continue
            fmt, _need, hasv = S.FORMS[form]
            regs = S.IDX_REGS if "{R}" in fmt else [None]
            if not heavy:
                regs = [rnd.choice(regs)]
            for reg in regs:
                if not hasv:
                    add(Shape(m, form, reg))
                    continue
                srcs = value_sources(form, tier, m)
                if not heavy:
                    srcs = [srcs[0], rnd.choice(srcs[1:])]
                elif not full and reg not in (None, "X"):
                    srcs = [("lit", "D5"), rnd.choice(srcs)]
                for src in srcs:
                    add(Shape(m, form, reg, src))
    return out


WRONG_REGS = ["Z", "PC", "A", "D", "DP", "CC", "W", "XX"]


def invalid_corpus(tier, seed):
    """C12/C13: grammar-valid forms the instruction lacks, wrong registers, malformed separators (mutation grammar)"""
    rnd = random.Random(seed + 1)
    out = []
    seen = set()

    def add(sh):
        if sh.sid not in seen:
            seen.add(sh.sid)
            out.append(sh)

    full = tier == "thorough"
    # modes the instruction does not have
    for m in S.MNEMONICS:
        md = S.MODES[m]
        if "rel8" in md or "rel16" in md:
            continue
        cands = []
        if "inh" not in md:
            cands.append(Shape(m, "inh", expect_valid=False))
        if m not in S.STACK + S.PAIR:
            if "imm8" not in md and "imm16" not in md:
                cands.append(Shape(m, "imm", None, ("lit", "D3"), expect_valid=False))
            if "ext" not in md:
                cands += [Shape(m, "mem", None, ("lit", "H4"), expect_valid=False),
                          Shape(m, "dir", None, ("lit", "H2"), expect_valid=False),
                          Shape(m, "ext", None, ("lit", "H4"), expect_valid=False)]
            if "idx" not in md:
                cands += [Shape(m, "idxv", "X", ("lit", "D3"), expect_valid=False),
                          Shape(m, "idx0", "Y", expect_valid=False), Shape(m, "extind", None, ("lit", "H4"), expect_valid=False),
                          Shape(m, "inc2", "U", expect_valid=False), Shape(m, "accA", "S", expect_valid=False)]
        if not full and m not in ("NOP", "STA", "LEAX", "ANDCC", "CLRA", "JMP", "PSHS", "TFR", "STY", "SWI2", "LDA"):
            cands = rnd.sample(cands, min(2, len(cands)))
        for c in cands:
            add(c)
    # wrong registers / malformed operands on indexed-capable instructions
    raws = []
    for r in WRONG_REGS:
        raws += ["{v},%s" % r, ",%s" % r, "[{v},%s]" % r, ",%s+" % r, ",-%s" % r, "A,%s" % r]
    raws += ["{v},", "{v},,X", ",", ",,", "[{v}", "{v}]", "[{v},X", "{v},X]", "[[{v}]]", "[]", "[,]", "#", "#,X", "<", ">",
             "{v},X,Y", ",X+++", ",---X", ",+X", ",X-", ",-X+", ",-X++", ",--X+", ",--Y++", "[,-X++]", "[,-X+]", "[,--U+]", "{v},X+", "{v},-X", "A,X+", "B,--Y", "D,X++", "[{v},X+]",
             "#{v},X", "{v},PC", "{v},PCR,X", "[{v},PCR", "E,X", "{v}+,X",
             "{v}*", "#-", "-", "$", "%", "'", "#'", "#$", "#%", "$,X", "{v}@", "@", "A,",
             "X,{v}", "X,Y", "PCR", ",PCR", "[,PCR]", "A,PCR", "{v},S+", "#{v}#", "##{v}", "<<{v}", "><{v}", "<>{v}",
             "[#{v}]", "<[{v}]", "#[{v}]"]
    ms = ["LDA", "LDX", "LEAX", "STA", "JMP", "NEG", "LDY"] if full else ["LDA", "LDX", "LEAX"]
    for m in ms:
        for raw in raws:
            src = ("lit", "D3") if "{v}" in raw else None
            add(Shape(m, "raw", None, src, raw=raw, expect_valid=False))
    # a few raw operands on non-indexed instructions
    for m, raw in [("NOP", "{v}"), ("NOP", ",X"), ("RTS", "#{v}"), ("PSHS", "{v}"), ("PSHS", "#{v}"), ("PSHS", "A,"),
                   ("PSHS", ",A"), ("PSHS", "A,,B"), ("PSHS", "A,Z"), ("PSHS", "S"), ("PSHU", "U"),
                   ("PULS", "S"), ("PULU", "U"), ("TFR", "A"), ("TFR", "A,B,X"), ("TFR", ",A"), ("TFR", "A,"),
                   ("TFR", "A,X"), ("TFR", "X,A"), ("EXG", "D,A"), ("TFR", "Z,A"), ("TFR", "A,Z"), ("TFR", "{v},A"),
                   ("ANDCC", "{v}"), ("CWAI", ",X"), ("ORCC", "A"), ("ABX", "X"), ("MUL", "A,B"),
                   ("SEX", "{v},X"), ("SWI2", "{v}"), ("CLRA", "A")]:
        src = ("lit", "D3") if "{v}" in raw else None
        add(Shape(m, "raw", None, src, raw=raw, expect_valid=False))
    return out


BASE_LINES = [
    ("START", "LDA", "#$10", "load"), ("", "LDX", "#MSG", "ptr"), ("LOOP", "LDA", ",X+", ""), ("", "STA", "$0400", "store"),
    ("", "BNE", "LOOP", ""), ("MSG", "FCC", '"HELLO"', ""), ("", "FCB", "1,2,3", "bytes"), ("", "FDB", "$1234,5", ""),
    ("BUF", "RMB", "16", "buffer"), ("", "ORG", "$0E00", ""), ("K", "EQU", "$FF", "const"), ("", "END", "START", ""),
    ("", "NAM", "PROG", ""), ("", "SETDP", "0", ""), ("", "JSR", "[K]", ""), ("", "LEAX", "MSG,PCR", ""),
    ("", "PSHS", "A,B,X", ""), ("", "TFR", "X,Y", ""), ("", "LDD", "K+1", ""), ("", "CMPA", "#'A", ""),
    ("", "LDB", "5,Y", ""), ("", "NOP", "", "nothing"), ("", "LBRA", "START", ""), ("", "STB", "<$20", ""),
    ("", "LDA", "B,U", ""), ("", "INCLUDE", "other.asm", ""), ("", "LDA", "START,X", "label offset"), ("", "LEAX", "LOOP,Y", ""),
    ("", "LDA", "[MSG,U]", ""), ("", "LDB", "START,PC", ""), ("L2", "LDA", "L2,S", ""), ("", "LDA", "K,X", ""), ("", "LDD", "#START-LOOP", ""),
    ("Z0", "RMB", "0", "nothing reserved"), ("", "RMB", "$00", ""), ("", "FCB", "0", ""), ("", "FDB", "0", ""), ("", "FCC", '""', "empty"),
    ("", "FDB", "START,LOOP", "table"), ("", "LDX", "#-1", ""), ("", "LDA", "-0,X", ""), ("", "FCC", '"A B;C"', "odd"),
]
PUNCT = [",", "#", "[", "]", "<", ">", "'", '"', "+", "-", "*", "/", "$", "%", "@", ";", ".", ":", "(", "=", "!", "?", "&", "^"]


def render(label, mnem, operand, comment):
    line = "%s %s %s" % (label, mnem, operand)
    if comment:
        line += " ; " + comment
    return line


def mutation_lines(tier, seed):
    """single-line mutations of valid statements (C13): deleted / duplicated fields, empty operands, unterminated
    strings, stray punctuation.  Returns list of line texts."""
    rnd = random.Random(seed + 7)
    out = []
    for (l, m, o, c) in BASE_LINES:
        out.append(render(l, m, o, c))
        out.append(render(l, m, "", c))                 # operand deleted
        out.append(render(l, m, "", ""))
        out.append(render("", m, o, c))                 # label deleted
        out.append(render(l, "", o, c))                 # mnemonic deleted
        out.append(render(l, m, o + o, c))              # operand duplicated
        out.append(render(l, m, o + "," + o, c))
        out.append(render(l, m + " " + m, o, c))        # mnemonic duplicated
        out.append(render(l or "L", l or "L", o, c))    # label as mnemonic
        out.append(l + m + o)                           # separators deleted
        out.append(render(l, m, o, c).rstrip() + " ;") 
        out.append(render(l, m.lower(), o, c))
        if o:
            out.append(render(l, m, o[:-1], c))         # last char of operand dropped (unterminated string/bracket)
            out.append(render(l, m, o[1:], c))
            ps = PUNCT if tier == "thorough" else rnd.sample(PUNCT, 5)
            for p in ps:
                out.append(render(l, m, p + o, c))
                out.append(render(l, m, o + p, c))
                if tier == "thorough":
                    out.append(render(l, m, p, c))
                    mid = len(o) // 2
                    out.append(render(l, m, o[:mid] + p + o[mid:], c))
    out += [" END", " RMB", " ORG", " FCC", "A EQU", ' FCC "ab', " FCB V", " FCB 1,X", " FDB", " FCB", " SETDP", " NAM",
            "LBL", " FCC \"\"", ' FCC "', " FCC /", " FCC //", " FCC /a", " FCC a", " FCC ab", " FCB ,", " FCB 1,", " FCB ,1",
            " FDB ,,", " FCB 1,,2", " RMB -1", " RMB $", " ORG -1", " ORG 70000", " EQU 5", "A EQU A", "A EQU B", " SET 5",
            "A SET", " INCLUDE", " END 5", " END X", " NAM 1234567890ABC", " SETDP $100", " FCB 'A", " FCB '", " FCB #5",
            " FCB <5", " FCB [5]", " FDB 'A,'B", " FCB $", " FCB %", " FCB %2", " FCB $G", " FCB -", " FCB --1", " FCB 1-",
            " FCB 1+", " FCB 1+2", " FCB 1/0", " LDA #1/0", " LDA 1/0", "A EQU 1/0", " FDB 1/0", " LDA #5/0,X", " LDA 5/0,X",
            " LDX #SCREENBUFFERSTARTADDRESSTABLE00001!", " STA SCREENBUFFERSTARTADDRESSTABLE00001.", " LDA SCREENBUFFERSTARTADDRESSTABLE00001&,X",
            " LDA #AAAAAAAAAAAAAAAAAAAAAAAAAAAAAAAAAAAAAAAAAAAAAAAA?", " JMP 0000000000000000000000000000000000000000000000000000!",
            "LONGLABELLONGLABELLONGLABELLONGLABELLONGLABEL0123456789 NOP", " FCB 1,2,3,4,5,6,7,8,9,10,11,12,13,14,15,16,17,18,19,20,21,22,23,24,25,26,27,28,29,30!",
            "\t", " ", "", ";", " ;", "; c", "*", "* c", "LBL:", "LBL: NOP", "1 NOP", "@ NOP", "@@ NOP ", "LBL NOP X",
            " NOP NOP", "  ", " LDA", " LDA ", "LDA #1", " LDA\t#1", "\tLDA\t#1\t; c", " LDA #1;c", " LDA #1 c"]
    seen = set()
    res = []
    for x in out:
        if x not in seen:
            seen.add(x)
            res.append(x)
    return res


def line_corpus(tier, seed):
    shapes = []
    for i, line in enumerate(mutation_lines(tier, seed)):
        sh = Shape("?", "line", raw=line, expect_valid=None)
        shapes.append(sh)
    return shapes
