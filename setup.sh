#!/bin/sh
# Builds /verif/.venv offline: a venv of /venv's python 3.12 that also sees /venv's site-packages
# (the repository's own environment), plus crosshair-tool / z3-solver / cvc5 / jsonschema from the wheelhouse.
# Idempotent; every check calls it (cheap when the venv exists).
set -e
HERE="$(cd "$(dirname "$0")" && pwd)"
VENV="$HERE/.venv"
STAMP="$VENV/.ok"
if [ -f "$STAMP" ] && "$VENV/bin/python" -c "import crosshair, z3" >/dev/null 2>&1; then
    exit 0
fi
rm -rf "$VENV"
/venv/bin/python -m venv "$VENV"
SP="$VENV/lib/python3.12/site-packages"
echo "import site; site.addsitedir('/venv/lib/python3.12/site-packages')" > "$SP/base.pth"
PIP_NO_INDEX=1 "$VENV/bin/pip" install --quiet --no-index --find-links /opt/veriftools/wheels \
    crosshair-tool z3-solver jsonschema >/dev/null
touch "$STAMP"
