#!/usr/bin/env python3
"""Runs the repository's test suite (hooks guard OFF -- there are no hooks) and compares with /root/.vp/BASELINE.json:
every test in stable_pass must pass.  exit 0 iff so."""
import json, os, subprocess, sys, tempfile
import xml.etree.ElementTree as ET

base = json.load(open("/root/.vp/BASELINE.json"))
with tempfile.TemporaryDirectory() as d:
    xml = os.path.join(d, "r.xml")
    env = dict(os.environ)
    env.pop("COCOASM_VERIF", None)
    subprocess.run("cd " + os.environ.get("VERIF_REPO", "/repo") + " && /venv/bin/python -m pytest -ra -q -p no:cacheprovider --timeout=900 "
                   "--continue-on-collection-errors --junitxml=%s" % xml, shell=True, env=env,
                   stdout=subprocess.DEVNULL, stderr=subprocess.DEVNULL)
    passed = set()
    for tc in ET.parse(xml).getroot().iter("testcase"):
        if not any(ch.tag in ("failure", "error", "skipped") for ch in tc):
            passed.add("%s::%s" % (tc.get("classname"), tc.get("name")))
missing = [t for t in base["stable_pass"] if t not in passed]
print("stable tests: %d, passing now: %d, missing: %d" % (len(base["stable_pass"]), len(base["stable_pass"]) - len(missing), len(missing)))
for t in missing[:20]:
    print("  NOT PASSING:", t)
sys.exit(1 if missing else 0)
