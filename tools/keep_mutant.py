#!/usr/bin/env python3
"""keep_mutant.py <out_dir> <seed id> <property> <caught_by comma list | NONE> [note]
copies patch.diff, demo.py, notes.txt into /verif/seeded/<seed id>/ and writes meta.json"""
import json, os, shutil, sys
src, sid, prop, caught = sys.argv[1:5]
note = sys.argv[5] if len(sys.argv) > 5 else ""
dst = os.path.join("/verif/seeded", sid)
os.makedirs(dst, exist_ok=True)
for f in ("patch.diff", "demo.py", "notes.txt"):
    if os.path.exists(os.path.join(src, f)):
        shutil.copy(os.path.join(src, f), os.path.join(dst, f))
notes = open(os.path.join(dst, "notes.txt")).read().strip() if os.path.exists(os.path.join(dst, "notes.txt")) else ""
meta = {
    "id": sid, "breaks_property": prop,
    "needs_to_manifest": notes[:1500],
    "what_was_run": [
        "git apply patch.diff in a scratch worktree of /repo (HEAD incl. the fix: commits); demo.py: exit 0 on the clean tree, exit 1 with the patch",
        "python3 /verif/tools/baseline.py with the patch: all 490 stable tests pass",
        "./check <property> --tier quick --no-evidence with VERIF_REPO pointing at the patched worktree (tools/try_mutant.sh)",
    ],
    "caught_by": [] if caught == "NONE" else caught.split(","),
    "note": note,
}
json.dump(meta, open(os.path.join(dst, "meta.json"), "w"), indent=1)
print("kept", sid, "caught by", meta["caught_by"])
