#!/usr/bin/env python3
"""(re)writes /verif/MANIFEST.json from the table below"""
import json
TECH = {
 "C01": "symbolic execution (CrossHair+z3) of Program.process per statement shape, 16-bit symbolic operand; datasheet decoder oracle",
 "C02": "symbolic execution of Program.process: per-statement size/bytes coupling and program templates with symbolic origin and gaps",
 "C03": "symbolic execution of branch / label,PCR templates with symbolic distances; displacement law via datasheet decoder",
 "C04": "symbolic execution with both expression leaves symbolic; arithmetic oracle; decimal re-parse modelled by z3 regex inclusion",
 "C05": "symbolic execution of FCB/FDB/RMB with symbolic elements; FCC by bounded exhaustive enumeration (stated)",
 "C06": "symbolic execution of cassette write->read with symbolic data bytes/addresses; independent writer for foreign streams",
 "C07": "symbolic execution of disk write->read; independent DECB writer on enumerated granule chains for foreign images",
 "C08": "symbolic execution of DiskFile.add_file; independent Disk BASIC fsck oracle on the written buffer",
 "C09": "symbolic execution of save/re-open/append rounds; inductive add_file step from a symbolic allocation table; kind-recognition with symbolic bytes",
 "C10": "symbolic execution of assembler.main / file_util.main on an in-memory FS with symbolic pre-existing bytes",
 "C11": "symbolic execution of assembler.main on an in-memory FS; cassette/disk oracles on the written files",
 "C12": "symbolic execution per statement shape over the whole literal range + mutation grammar; datasheet decoder oracle",
 "C13": "symbolic execution with fix-point watchdog (termination) and outcome classification (no internal errors); CLI exit status",
 "C14": "symbolic execution of the cassette writer; independent tape-format verifier on the written buffer",
 "C15": "inductive allocator step from a symbolic allocation table and directory (partitioned, solver-decided); native fill-to-full histories",
 "C16": "symbolic execution of file_util.main conversions and chains on an in-memory FS; cassette/disk oracles",
 "C17": "product program (P;Q;P) under symbolic execution comparing integer observations; module-state frame check; enumerated fresh-process runs",
 "C18": "two symbolic runs per obligation (origin shift / renaming / reformatting / suffix) with the relation asserted between them",
 "C19": "two symbolic runs (INCLUDE vs spliced) on an in-memory FS compared on all observations; cycle / missing-file diagnostics",
}
LEVEL = ("Bounded symbolic model checking of the real code: CrossHair 0.0.110 executes the repository's own functions from "
         "the current working tree with symbolic integers; z3 decides every branch; an obligation counts only when its path "
         "tree is exhausted with the assertion valid on every path (no solver unknown, at least one path reaching the "
         "assertion). Holds for every value inside the bounds stated in the evidence, or yields a concrete counterexample "
         "that is replayed natively (no tracing, no models) before it is reported.")
NOTE = ("Trusted: z3 5.1.0; CrossHair's path bookkeeping and int/list/dict models; the primitive models M1-M8 in vlib/models.py and "
        "vlib/harness.py; assumption A-L (a literal's digits are inspected only through int()), re-checked natively on "
        "boundary/random members of every confirmed obligation; the independent oracles vlib/oracle_*.py; Appendix A of "
        "DESIGN.md for validity. Known findings (/verif/known_findings.json) are accepted only as solver-checked predicates "
        "inside the obligation.")
props = [json.loads(l) for l in open('/verif/properties.jsonl')]
checks = []
for p in props:
    pid = p['id']
    checks.append({"property_id": pid, "quick_cmd": "./check %s --tier quick" % pid,
                   "thorough_cmd": "./check %s --tier thorough" % pid, "evidence_file": "/verif/evidence/%s.json" % pid,
                   "replay_cmd_template": "./check --replay {path}", "engine": "crosshair+z3",
                   "level_claimed": {"category": "model_checking", "text": LEVEL, "design_ref": "DESIGN.md section 4, " + pid},
                   "level_note": NOTE, "technique": TECH[pid]})
m = {"version": 1, "setup_cmd": "./setup.sh",
     "hooks": {"guard": "COCOASM_VERIF", "enable": "n/a - no source hooks: the harness patches module attributes at run time",
               "baseline_off_cmd": "python3 /verif/tools/baseline.py", "source_commits": [], "add_only": True},
     "engines": [{"name": "crosshair+z3", "path": "/verif/vlib", "serves_properties": [p['id'] for p in props],
                  "kind_free_text": "symbolic execution of the real Python code (CrossHair explore_paths) with z3; primitive-model layer; literal cut; independent oracles"}],
     "checks": checks, "not_applicable": [],
     "notes": "exit 0 = no unlisted violation; exit 1 = replayed violation (VIOLATION line); exit 2 = harness error. Known findings: /verif/known_findings.json. Genuine defects repaired in /repo as 'fix:' commits are listed there as 'fixed' entries."}
json.dump(m, open('/verif/MANIFEST.json', 'w'), indent=1)
print("manifest with", len(checks), "checks")
