#!/bin/bash
# runs every property's check at the given tier, sequentially; prints one summary line per property
T="${1:-quick}"
cd "$(dirname "$0")/.."
for i in 01 02 03 04 05 06 07 08 09 10 11 12 13 14 15 16 17 18 19; do
  S=$(date +%s)
  OUT=$(./check C$i --tier $T 2>/dev/null); RC=$?
  echo "C$i rc=$RC $(( $(date +%s) - S ))s $(echo "$OUT" | grep "^C$i:" | tail -1 | cut -c1-220)"
  echo "$OUT" | grep "^VIOLATION\|^HARNESS" | head -3 | cut -c1-200
done
