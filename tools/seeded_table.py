#!/usr/bin/env python3
"""prints the markdown table of /verif/seeded/*/meta.json (id, aimed at, caught by, first line of the description)"""
import glob, json, os
rows = []
for d in sorted(glob.glob(os.path.join(os.path.dirname(__file__), "..", "seeded", "*", "meta.json"))):
    m = json.load(open(d))
    what = " ".join(m.get("needs_to_manifest", "").split())[:150].replace("|", "/")
    rows.append("| %s | %s | %s | %s |" % (m["id"], m["breaks_property"], ", ".join(m.get("caught_by") or []) or m.get("status", "-"), what))
print("| seeded change | aimed at | caught by (quick tier, final tree) | what it is |\n|---|---|---|---|")
print("\n".join(rows))
