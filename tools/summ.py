#!/usr/bin/env python3
"""compact summary of a work/<P>_<tier>_results.json: failing obligations grouped, one line per group"""
import json, sys, collections
rs = json.load(open(sys.argv[1]))
maxrows = int(sys.argv[2]) if len(sys.argv) > 2 else 30
g = collections.defaultdict(list)
for r in rs:
    if r['status'] != 'confirmed' or r.get('native_bad'):
        t = r.get('tags') or {}
        parts = r['oid'].split(':')
        key = (parts[1] if len(parts) > 1 else '', t.get('form') or t.get('tpl') or t.get('case') or '', t.get('src') or '', r['status'][:5])
        g[key].append(r)
rows = sorted(g.items(), key=lambda kv: -len(kv[1]))
for k, v in rows[:maxrows]:
    r = v[0]; ri = r.get('replay_info') or {}
    if not isinstance(ri, dict): ri = {'outcome': str(ri)[-160:]}
    extra = {kk: ri[kk] for kk in ri if kk not in ('lines',)}
    print(("%d %s %s cex=%s %s %s" % (len(v), k, r['oid'], r['cex'], json.dumps(extra)[:170], r['reason'][:60])).replace('\n', ' ')[:330])
if len(rows) > maxrows: print('... %d more groups' % (len(rows) - maxrows))
print('n', len(rs), 'failing', sum(len(v) for v in g.values()), 'cpu max', max(r['cpu_s'] for r in rs), 'sum', round(sum(r['cpu_s'] for r in rs)))
