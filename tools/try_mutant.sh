#!/bin/bash
# usage: try_mutant.sh <mutant dir with patch.diff + demo.py> <prop> [<prop> ...]
# Applies the patch to /repo, confirms demo (clean PASS / patched FAIL) and the stable tests, runs the given checks
# (quick tier, no evidence), restores /repo.  Prints one line per check: <prop> exit=<code> [VIOLATION lines].
D="$1"; shift
cd /repo || exit 9
if [ -n "$(git status --porcelain)" ]; then echo "repo dirty"; exit 9; fi
trap 'git -C /repo checkout -- . ; git -C /repo clean -fdq' EXIT
/venv/bin/python "$D/demo.py" /repo >/dev/null 2>&1; echo "demo clean exit=$? (want 0)"
if ! git apply --check "$D/patch.diff" 2>/dev/null; then echo "PATCH DOES NOT APPLY"; exit 8; fi
git apply "$D/patch.diff"
/venv/bin/python "$D/demo.py" /repo >/dev/null 2>&1; echo "demo patched exit=$? (want 1)"
python3 /verif/tools/baseline.py | head -1
for P in "$@"; do
  OUT=$(cd /verif && ./check "$P" --tier "${TIER:-quick}" --no-evidence 2>/dev/null); RC=$?
  echo "$P exit=$RC violations=$(echo "$OUT" | grep -c '^VIOLATION') $(echo "$OUT" | grep 'counterexample' | head -2 | cut -c1-260)"
done
