#!/bin/bash
# usage: [REPODIR=/path/to/worktree] [TIER=quick] try_mutant.sh <mutant dir with patch.diff + demo.py> <prop> [<prop> ...]
# Applies the patch to REPODIR (default /repo), confirms demo (clean PASS / patched FAIL) and the stable tests, runs the
# given checks (no evidence written), restores the tree.
D="$1"; shift
R="${REPODIR:-/repo}"
cd "$R" || exit 9
if [ -n "$(git status --porcelain)" ]; then echo "repo dirty"; exit 9; fi
trap 'git -C "$R" checkout -- . ; git -C "$R" clean -fdq' EXIT
/venv/bin/python "$D/demo.py" "$R" >/dev/null 2>&1; echo "demo clean exit=$? (want 0)"
if ! git apply --check "$D/patch.diff" 2>/dev/null; then echo "PATCH DOES NOT APPLY"; exit 8; fi
git apply "$D/patch.diff"
/venv/bin/python "$D/demo.py" "$R" >/dev/null 2>&1; echo "demo patched exit=$? (want 1)"
VERIF_REPO="$R" python3 /verif/tools/baseline.py | head -1
for P in "$@"; do
  OUT=$(cd /verif && VERIF_STOP_AT_FIRST=1 VERIF_REPO="$R" ./check "$P" --tier "${TIER:-quick}" --no-evidence 2>/dev/null); RC=$?
  echo "$P exit=$RC violations=$(echo "$OUT" | grep -c '^VIOLATION') $(echo "$OUT" | grep 'counterexample' | head -1 | cut -c1-230)"
done
