"""Verification library for CoCoAssembler: solver-based checking (CrossHair + z3) of the real code."""
