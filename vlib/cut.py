"""
Literal cut L (DESIGN 2.3).  A numeric literal in concrete source text is (radix, digit count, value).  The text
holds a *placeholder* of the right spelling class; at the `int(text, base)` parse sites the symbolic value is
returned instead of the placeholder's.  Natively (replay / R4) the real digits are written instead.

Spelling classes:  D1..D5, D7  decimal digits        (value 0 .. 10^k - 1)
                   H1..H4, H5  $hex digits            (value 0 .. 16^k - 1)
                   B8, B16, B7 %binary digits
                   N1..N5      -decimal               (value = magnitude, 0 .. 10^k - 1; the text carries the '-')
"""
import contextlib

from crosshair.tracers import NoTracing

from . import models

_DEC_PH = ["7", "8", "6", "9", "5", "4", "3", "2", "1"]
_HEX_PH = ["e", "d", "c", "b", "a", "f"]   # every hex placeholder contains a lower-case letter, so it can never equal
#                                  an upper-case rendering ("{:X}") parsed back by high_byte/low_byte/get_binary_array


class Lit:
    """One literal occurrence: spelling class + variable name."""

    def __init__(self, cls, var, slot=0):
        self.cls, self.var, self.slot = cls, var, slot
        k = int(cls[1:])
        self.k = k
        self.kind = cls[0]
        if self.kind in "DN":
            self.base, self.lo, self.hi = 10, 0, 10 ** k - 1
            self.ph = _DEC_PH[slot] * k
        elif self.kind == "H":
            self.base, self.lo, self.hi = 16, 0, 16 ** k - 1
            self.ph = (_HEX_PH[slot] * k)
        elif self.kind == "B":
            self.base, self.lo, self.hi = 2, 0, 2 ** k - 1
            self.ph = ("0111011101110111"[slot:] + "0111")[:k]
        else:
            raise ValueError(cls)

    @property
    def prefix(self):
        return {"D": "", "N": "-", "H": "$", "B": "%"}[self.kind]

    def placeholder_text(self):
        return self.prefix + self.ph

    def real_text(self, value):
        if self.kind in "DN":
            return self.prefix + str(value).rjust(self.k, "0")
        if self.kind == "H":
            return "$" + ("%X" % value).rjust(self.k, "0")
        return "%" + bin(value)[2:].rjust(self.k, "0")

    def signed(self, value):
        """the integer the source text denotes"""
        return -value if self.kind == "N" else value


@contextlib.contextmanager
def literals(mapping):
    """mapping: {(digits, base): symbolic int}.  Hit counters are in models.LITERAL_HITS."""
    with NoTracing():
        models.LITERALS.clear()
        models.LITERALS.update(mapping)
        models.LITERAL_HITS.clear()
    try:
        yield
    finally:
        with NoTracing():
            models.LITERALS.clear()
