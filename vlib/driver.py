"""
Driver D: runs the obligations of one property in parallel worker processes, replays counterexamples natively,
matches known findings, writes /verif/evidence/<id>.json.

exit 0  no unlisted violation among the explored obligations
exit 1  a replayed, unlisted violation            (prints  VIOLATION property=<id> replay=<path>)
exit 2  harness error (non-reproducing counterexample, failed gate, ...)
"""
import argparse
import importlib
import json
import multiprocessing as mp
import os
import random
import sys
import time
import traceback

HERE = os.path.dirname(os.path.dirname(os.path.abspath(__file__)))
if HERE not in sys.path:
    sys.path.insert(0, HERE)

from vlib import known                      # noqa: E402
from vlib.engine import explore             # noqa: E402
from vlib.harness import REPO, Ctx, HarnessError, Vacuous, env   # noqa: E402

THRESHOLDS = [0, 1, 2, 15, 16, 17, 31, 32, 127, 128, 129, 255, 256, 257, 2303, 2304, 2305, 32767, 32768, 32769,
              65535, 65536, 65537]


class Ob:
    """One proof obligation: body(ctx) runs the real code on a shape and returns truth (or (truth, info))."""

    def __init__(self, oid, body, timeout=40.0, tags=None, text=None, r4=True, hard_factor=1.5):
        self.oid, self.body, self.timeout, self.tags, self.text, self.r4 = oid, body, timeout, tags or {}, text, r4
        self.hard_factor = hard_factor

    def run(self, ctx):
        with env(ctx):
            return self.body(ctx)


def native(ob, values, strict=False):
    """run the obligation natively (no tracing, no model layer) on concrete values -> (ok, info, used values)"""
    ctx = Ctx(False, dict(values))
    ctx.strict = strict
    ctx.lenient = True
    try:
        r = ob.run(ctx)
    except Vacuous:
        return True, "vacuous", ctx.used
    info = None
    if isinstance(r, tuple):
        r, info = r
    return bool(r), info, ctx.used


_FUNCS = set()


def _profile(frame, event, arg):
    if event == "call":
        fn = frame.f_code.co_filename
        if fn.startswith(REPO) and "/test/" not in fn:
            _FUNCS.add("%s:%s" % (os.path.relpath(fn, REPO), frame.f_code.co_qualname))


def r4_points(vars_, seed, oid, n_random=4, cap=28):
    """boundary + threshold(+-1) + seeded random members of the input domain"""
    rnd = random.Random("%s/%s" % (seed, oid))
    names = sorted(vars_)
    if not names:
        return [{}]
    pts = []
    cands = {}
    for nme in names:
        lo, hi = vars_[nme]
        c = sorted({t for t in THRESHOLDS + [lo, hi, lo + 1, hi - 1, (lo + hi) // 2] if lo <= t <= hi})
        cands[nme] = c
    if len(names) == 1:
        for c in cands[names[0]]:
            pts.append({names[0]: c})
    else:
        for nme in names:
            for c in cands[nme]:
                p = {k: rnd.choice(cands[k]) for k in names}
                p[nme] = c
                pts.append(p)
        rnd.shuffle(pts)
        pts = pts[:cap - n_random]
    for _ in range(n_random):
        pts.append({k: rnd.randint(*vars_[k]) for k in names})
    return pts[:cap + n_random]


def run_native_only(ob):
    """exhaustive native enumeration obligations (stated as such in the evidence): no symbolic input"""
    t0 = time.time()
    sys.setprofile(_profile)
    try:
        ok, info, _u = native(ob, {})
    except Exception as e:  # noqa: BLE001
        ok, info = False, "native run raised %s: %s" % (type(e).__name__, e)
    finally:
        sys.setprofile(None)
    n = getattr(ob, "ncases", 1)
    return {"oid": ob.oid, "status": "confirmed" if ok else "refuted", "reason": "", "paths": 0, "forks": 0,
            "solver_checks": 0, "solver_s": 0, "cpu_s": round(time.time() - t0, 3), "cex": {}, "info": _jsonable(info),
            "known": [], "exc": None, "vars": {}, "native_runs": n, "native_bad": None, "replayed": (not ok),
            "replay_info": _jsonable(info), "funcs": sorted(_FUNCS), "wall_s": round(time.time() - t0, 3),
            "text": ob.text, "enumerated": n}


def run_one(ob, seed, tier):
    if getattr(ob, "native_only", False):
        return run_native_only(ob)
    t0 = time.time()
    try:
        res = explore(lambda: ob.run(_symctx()), timeout=ob.timeout)
    except Exception as e:  # noqa: BLE001 - e.g. a symbolic value of an earlier path met outside the tracer (state kept
        # by the code under test between runs): the solver verdict is lost, the native probes below still run
        from types import SimpleNamespace
        res = SimpleNamespace(status="inconclusive", reason="exploration raised %s: %s" % (type(e).__name__, e), paths=0, forks=0,
                              solver_checks=0, solver_s=0.0, cpu_s=0.0, cex=None, info=None, notes=[], exc=traceback.format_exc()[-1500:], vars={})
    out = {
        "oid": ob.oid, "status": res.status, "reason": res.reason, "paths": res.paths, "forks": res.forks,
        "solver_checks": res.solver_checks, "solver_s": round(res.solver_s, 3), "cpu_s": round(res.cpu_s, 3),
        "cex": res.cex, "info": _jsonable(res.info), "known": sorted(k[3:] for k in res.notes if k.startswith("KF:")),
        "exc": res.exc, "vars": {k: list(v) for k, v in res.vars.items()}, "native_runs": 0, "native_bad": None,
        "replayed": None, "text": ob.text,
    }
    sys.setprofile(_profile)
    try:
        if res.status == "confirmed" and ob.r4:
            for p in r4_points(res.vars, seed, ob.oid):
                try:
                    ok, info, used = native(ob, p)
                except Exception as e:  # noqa: BLE001
                    ok, info, used = False, "native run raised %s: %s" % (type(e).__name__, e), p
                out["native_runs"] += 1
                if not ok:
                    out["native_bad"] = {"values": used or p, "info": _jsonable(info)}
                    break
        elif res.status == "inconclusive" and ob.r4:
            # no solver verdict: the native probes are still a real test of the real code (a failure is a reproduction)
            for p in ([{}] + r4_points(res.vars, seed, ob.oid))[:12]:
                try:
                    ok, info, used = native(ob, p)
                except Exception as e:  # noqa: BLE001
                    continue
                out["native_runs"] += 1
                if not ok:
                    out["native_bad"] = {"values": used or p, "info": _jsonable(info)}
                    break
        elif res.status == "refuted":
            vals = dict(res.cex or {})
            try:
                ok, info, used = native(ob, vals)
                out["native_runs"] += 1
                out["replayed"] = (not ok)
                out["replay_info"] = _jsonable(info)
                out["cex"] = used or vals
            except Exception as e:  # noqa: BLE001
                out["replayed"] = None
                out["replay_info"] = "native replay raised %s: %s\n%s" % (type(e).__name__, e, traceback.format_exc()[-800:])
            except BaseException as e:  # noqa: BLE001
                if type(e).__name__ != "CrossHairInternal":
                    raise
                # the code under test kept objects of the symbolic run (module-level state): this worker cannot replay
                # natively any more; the parent process, which never ran anything symbolically, does it
                out["replay_in_parent"] = True
                out["cex"] = vals
    finally:
        sys.setprofile(None)
    out["funcs"] = sorted(_FUNCS)
    out["wall_s"] = round(time.time() - t0, 3)
    return out


def _symctx():
    c = Ctx(True)
    c.strict = False
    return c


def _jsonable(x):
    try:
        json.dumps(x)
        return x
    except Exception:  # noqa: BLE001
        return repr(x)[:2000]


# ---- worker pool with hard per-task kill ----------------------------------------------------------------
def _worker(conn, obs, seed, tier):
    os.environ["PYTHONHASHSEED"] = "0"
    while True:
        try:
            i = conn.recv()
        except EOFError:
            return
        if i is None:
            return
        try:
            r = run_one(obs[i], seed, tier)
        except BaseException as e:  # noqa: BLE001
            r = {"oid": obs[i].oid, "status": "inconclusive", "reason": "worker exception %s: %s" % (type(e).__name__, e),
                 "paths": 0, "forks": 0, "solver_checks": 0, "solver_s": 0, "cpu_s": 0, "cex": None, "info": None,
                 "known": [], "exc": traceback.format_exc()[-1500:], "vars": {}, "native_runs": 0, "native_bad": None,
                 "replayed": None, "funcs": [], "wall_s": 0, "text": obs[i].text}
        conn.send((i, r))


def run_pool(obs, seed, tier, jobs, progress=True):
    ctx = mp.get_context("fork")
    results = [None] * len(obs)
    pending = list(range(len(obs)))
    # longest first
    pending.sort(key=lambda i: -obs[i].timeout)
    workers = []

    def spawn():
        a, b = ctx.Pipe()
        p = ctx.Process(target=_worker, args=(b, obs, seed, tier), daemon=True)
        p.start()
        b.close()
        return {"p": p, "conn": a, "task": None, "t0": None}

    for _ in range(min(jobs, max(1, len(obs)))):
        workers.append(spawn())
    done = 0
    t_start = time.time()
    last = 0
    while done < len(obs):
        for w in workers:
            if w["task"] is None and pending:
                i = pending.pop(0)
                w["task"], w["t0"] = i, time.time()
                w["conn"].send(i)
        busy = [w for w in workers if w["task"] is not None]
        if not busy:
            break
        ready = mp.connection.wait([w["conn"] for w in busy], timeout=1.0)
        for w in busy:
            if w["conn"] in ready:
                try:
                    i, r = w["conn"].recv()
                except (EOFError, ConnectionError):
                    i = w["task"]
                    r = _dead(obs[i], "worker died")
                    w["p"].kill()
                    neww = spawn()
                    w.update(neww)
                if r.get("replay_in_parent"):
                    try:
                        ok, info, used = native(obs[i], dict(r["cex"] or {}))
                        r["replayed"] = (not ok)
                        r["replay_info"] = _jsonable(info)
                        r["cex"] = used or r["cex"]
                        r["native_runs"] = r.get("native_runs", 0) + 1
                    except Exception as e:  # noqa: BLE001
                        r["replayed"] = None
                        r["replay_info"] = "native replay (parent) raised %s: %s" % (type(e).__name__, e)
                results[i] = r
                done += 1
                w["task"] = None
                if os.environ.get("VERIF_STOP_AT_FIRST") and ((r["status"] == "refuted" and r.get("replayed") is True)
                                                                or (r["status"] in ("confirmed", "inconclusive") and r.get("native_bad"))):
                    # seeded-change evaluation only: one replayed violation decides "caught"; the rest is not explored
                    for j in pending:
                        results[j] = _dead(obs[j], "skipped: VERIF_STOP_AT_FIRST after a violation")
                        done += 1
                    pending = []
            elif time.time() - w["t0"] > obs[w["task"]].timeout * obs[w["task"]].hard_factor + 30:
                i = w["task"]
                w["p"].kill()
                w["p"].join()
                results[i] = _dead(obs[i], "hard timeout (killed after %.0fs)" % (time.time() - w["t0"]))
                done += 1
                neww = spawn()
                w.update(neww)
        if progress and time.time() - last > 15:
            last = time.time()
            print("  ... %d/%d obligations, %.0fs" % (done, len(obs), time.time() - t_start), file=sys.stderr, flush=True)
    for w in workers:
        try:
            w["conn"].send(None)
        except Exception:  # noqa: BLE001
            pass
    for w in workers:
        w["p"].join(timeout=2)
        if w["p"].is_alive():
            w["p"].kill()
    return results


def _dead(ob, why):
    return {"oid": ob.oid, "status": "inconclusive", "reason": why, "paths": 0, "forks": 0, "solver_checks": 0,
            "solver_s": 0, "cpu_s": 0, "cex": None, "info": None, "known": [], "exc": None, "vars": {},
            "native_runs": 0, "native_bad": None, "replayed": None, "funcs": [], "wall_s": 0, "text": ob.text}


# ---- main ---------------------------------------------------------------------------------------------------
def load_prop(pid):
    return importlib.import_module("props." + pid.lower())


def find_ob(pid, oid, tier, seed):
    mod = load_prop(pid)
    for t in (tier, "thorough", "quick"):
        for ob in mod.obligations(t, seed):
            if ob.oid == oid:
                return ob
    return None


def replay(path):
    with open(path) as f:
        rp = json.load(f)
    ob = find_ob(rp["property"], rp["oid"], rp.get("tier", "quick"), rp.get("seed", 0))
    if ob is None:
        print("replay: obligation %s not found" % rp["oid"])
        return 2
    ok, info, used = native(ob, rp["values"])
    print("replay %s %s values=%s" % (rp["property"], rp["oid"], json.dumps(rp["values"])))
    if ob.text:
        print("  shape: %s" % ob.text)
    print("  observed: %s" % (json.dumps(_jsonable(info)),))
    if ok:
        print("  property holds on this input now")
        return 0
    print("VIOLATION property=%s replay=%s" % (rp["property"], path))
    return 1


def main(argv=None):
    ap = argparse.ArgumentParser()
    ap.add_argument("prop", nargs="?")
    ap.add_argument("--tier", default=os.environ.get("VERIF_TIER", "quick"), choices=["quick", "thorough"])
    ap.add_argument("--replay")
    ap.add_argument("--only", help="substring filter on obligation ids")
    ap.add_argument("--jobs", type=int, default=int(os.environ.get("VERIF_JOBS", "0")) or (os.cpu_count() or 4))
    ap.add_argument("--list", action="store_true")
    ap.add_argument("--no-evidence", action="store_true")
    ap.add_argument("-v", "--verbose", action="store_true")
    a = ap.parse_args(argv)
    if os.environ.get("VERIF_STOP_AT_FIRST"):
        a.no_evidence = True         # a truncated exploration never writes evidence
    if a.replay:
        return replay(a.replay)
    if not a.prop:
        ap.error("property id required")
    pid = a.prop.upper()
    seed = int(os.environ.get("VERIF_SEED", "0") or 0)
    t0 = time.time()
    mod = load_prop(pid)
    obs = mod.obligations(a.tier, seed)
    ids = [o.oid for o in obs]
    if len(set(ids)) != len(ids):
        dup = sorted({i for i in ids if ids.count(i) > 1})[:5]
        print("harness error: duplicate obligation ids %s" % dup)
        return 2
    if a.only:
        obs = [o for o in obs if a.only in o.oid]
    if a.list:
        for o in obs:
            print(o.oid, "|", o.text or "")
        print(len(obs), "obligations")
        return 0
    print("%s tier=%s seed=%d: %d obligations on %d workers" % (pid, a.tier, seed, len(obs), a.jobs), flush=True)

    harness_errors = []
    gates = {}
    if hasattr(mod, "gates"):
        try:
            gates = mod.gates(a.tier, seed) or {}
        except Exception as e:  # noqa: BLE001
            harness_errors.append("gate failed: %s: %s" % (type(e).__name__, e))
            traceback.print_exc()

    results = run_pool(obs, seed, a.tier, a.jobs)
    byid = {o.oid: o for o in obs}
    os.makedirs(os.path.join(HERE, "work"), exist_ok=True)
    with open(os.path.join(HERE, "work", "%s%s_%s_results.json" % ("noev_" if a.no_evidence else "partial_" if a.only else "", pid, a.tier)), "w") as f:
        json.dump([dict(r, funcs=None, tags=byid[r["oid"]].tags) for r in results], f)

    violations = []
    os.makedirs(os.path.join(HERE, "replays"), exist_ok=True)
    for r in results:
        if r["status"] == "refuted":
            if r["replayed"] is True:
                violations.append((r, "solver counterexample, replayed natively"))
            elif r.get("replay_in_parent"):
                # the worker's interpreter was contaminated by state the code under test kept from the symbolic run and
                # the replay in the parent did not fail: no reproduction, so no verdict (reported as inconclusive)
                r["status"] = "inconclusive"
                r["reason"] = "counterexample found, but the code under test keeps state between runs and the clean replay held"
            else:
                harness_errors.append("counterexample of %s does not reproduce natively: cex=%s exc=%s info=%s" % (
                    r["oid"], r["cex"], r["exc"], r.get("replay_info")))
        elif r["status"] == "confirmed" and r["native_bad"]:
            r["cex"] = r["native_bad"]["values"]
            r["replay_info"] = r["native_bad"]["info"]
            violations.append((r, "native cross-check (R4) of a solver-confirmed obligation"))
        elif r["status"] == "inconclusive" and r["native_bad"]:
            r["cex"] = r["native_bad"]["values"]
            r["replay_info"] = r["native_bad"]["info"]
            violations.append((r, "native run of an obligation whose symbolic exploration was inconclusive"))

    for r, how in violations:
        fn = os.path.join(HERE, "replays", "%s_%s.json" % (pid, "".join(c if c.isalnum() else "_" for c in r["oid"])))
        with open(fn, "w") as f:
            json.dump({"property": pid, "oid": r["oid"], "tier": a.tier, "seed": seed, "values": r["cex"],
                       "shape": r["text"], "observed": r.get("replay_info"), "found_by": how}, f, indent=1)
        print("  counterexample %s values=%s observed=%s [%s]" % (r["oid"], r["cex"], r.get("replay_info"), how))
        print("VIOLATION property=%s replay=%s" % (pid, fn))

    # known findings: replay each listed witness natively in strict mode; print KNOWN-FINDING while it still fails
    kf_lines = []
    for e in known.entries(pid, include_fixed=True):
        wv = known.witness(e, pid)
        if not wv:
            continue
        w = {"oid": wv[0], "values": wv[1]}
        ob = byid.get(w["oid"]) or find_ob(pid, w["oid"], a.tier, seed)
        if ob is None:
            harness_errors.append("known finding %s: witness obligation %s not found" % (e["id"], w["oid"]))
            continue
        try:
            ok, info, _u = native(ob, w["values"], strict=True)
        except Exception as ex:  # noqa: BLE001
            harness_errors.append("known finding %s: witness replay raised %s" % (e["id"], ex))
            continue
        if e.get("status", "open") == "open":
            if not ok:
                line = "KNOWN-FINDING: property=%s %s [%s] witness %s %s" % (pid, e["what"], e["id"], ob.text or w["oid"],
                                                                            json.dumps(w["values"]))
                print(line)
                kf_lines.append(line)
            else:
                print("note: known finding %s no longer reproduces on its witness (repaired?)" % e["id"])
        else:
            if not ok:
                # a fixed entry suppresses nothing: its witness failing again is a violation
                fn = os.path.join(HERE, "replays", "%s_%s.json" % (pid, e["id"]))
                with open(fn, "w") as f:
                    json.dump({"property": pid, "oid": w["oid"], "tier": a.tier, "seed": seed, "values": w["values"],
                               "shape": ob.text, "observed": _jsonable(info), "found_by": "fixed finding returned"}, f)
                print("VIOLATION property=%s replay=%s" % (pid, fn))
                violations.append(({"oid": w["oid"], "cex": w["values"]}, "fixed finding returned"))

    if not a.no_evidence and not a.only:
        write_evidence(pid, a.tier, seed, obs, results, violations, harness_errors, kf_lines, gates, time.time() - t0, mod)

    n = len(results)
    conf = sum(1 for r in results if r["status"] == "confirmed" and not r["native_bad"])
    kfo = sum(1 for r in results if r["status"] == "confirmed" and r["known"])
    inc = [r for r in results if r["status"] == "inconclusive"]
    print("%s: %d obligations: %d confirmed over all paths (%d of them only modulo known findings), %d inconclusive, "
          "%d violations, %d harness errors; %.0fs" % (pid, n, conf, kfo, len(inc), len(violations), len(harness_errors),
                                                      time.time() - t0))
    if a.verbose or len(inc) <= 12:
        for r in inc:
            print("  inconclusive: %s (%s)" % (r["oid"], r["reason"]))
    for h in harness_errors:
        print("HARNESS-ERROR: " + h)
    if violations:
        return 1
    if harness_errors:
        return 2
    return 0


def write_evidence(pid, tier, seed, obs, results, violations, harness_errors, kf_lines, gates, wall, mod):
    funcs = set()
    for r in results:
        funcs.update(r.get("funcs") or [])
    confirmed = [r for r in results if r["status"] == "confirmed" and not r["native_bad"]]
    inconc = [r for r in results if r["status"] == "inconclusive"]
    samples = []
    pick = confirmed[:2] + [r for r in confirmed if r["known"]][:2] + inconc[:1] + [v[0] for v in violations][:2]
    for r in pick:
        samples.append({k: r.get(k) for k in ("oid", "text", "vars", "status", "paths", "forks", "solver_checks",
                                              "cpu_s", "known", "cex", "reason")})
    if not samples and results:
        samples.append({"oid": results[0]["oid"], "status": results[0]["status"]})
    cov = {
        "states": max(1, sum(r["paths"] for r in results)),
        "transitions": max(1, sum(r["forks"] for r in results)),
        "traces_validated_against_impl": sum(r["native_runs"] for r in results),
        "samples": samples,
        "obligations": len(results),
        "discharged": len(confirmed),
        "discharged_modulo_known_findings": sum(1 for r in confirmed if r["known"]),
        "inconclusive": [{"oid": r["oid"], "reason": r["reason"]} for r in inconc][:200],
        "inconclusive_count": len(inconc),
        "solver_queries": sum(r["solver_checks"] for r in results),
        "solver_time_s": round(sum(r["solver_s"] for r in results), 2),
        "symbolic_cpu_s": round(sum(r["cpu_s"] for r in results), 2),
        "functions_encoded": sorted(funcs),
        "bounds": getattr(mod, "BOUNDS", ""),
        "outside_claim": getattr(mod, "OUTSIDE", ""),
        "known_findings_reported": kf_lines,
        "harness_errors": harness_errors,
        "gates": gates,
        "engine": "CrossHair 0.0.110 explore_paths + z3 5.1.0; encoding = tracing of %s's current working tree" % REPO,
        "explanation": "states = symbolic paths explored (each decided feasible by z3); transitions = solver branch "
                       "decisions; an obligation is discharged only when its search tree was exhausted with the "
                       "assertion valid on every path and no solver unknown.",
    }
    ev = {
        "property_id": pid, "tier": tier, "seed": seed, "level": "model_checking", "coverage": cov,
        "assumptions": list(getattr(mod, "ASSUMPTIONS", [])) + [
            "z3 and CrossHair's int/list/dict/tuple models are sound; primitive models M1-M8 (vlib/models.py) are exact "
            "(differentially tested against CPython each run)",
            "A-L: the code inspects a literal's digits only through int(); re-checked natively on boundary and random "
            "members of every confirmed obligation (R4)",
        ],
        "wall_s": round(wall, 2), "violations": len(violations),
    }
    os.makedirs(os.path.join(HERE, "evidence"), exist_ok=True)
    with open(os.path.join(HERE, "evidence", pid + ".json"), "w") as f:
        json.dump(ev, f, indent=1)


if __name__ == "__main__":
    sys.exit(main())
