"""
Engine E: exhaustive symbolic path exploration of a Python callable with CrossHair 0.0.110 (z3 decides every
branch on a symbolic value).  Thin wrapper over crosshair.core.explore_paths.

    res = explore(body, timeout=60)

`body()` takes no arguments, creates its symbolic inputs with fresh_int()/fresh_bool(), runs the REAL code under
test and returns a truth value (possibly symbolic).  Verdicts:

    confirmed     every feasible path was explored (search tree exhausted) and `body` returned true on each
    refuted       some path returned false / raised; res.cex holds a model of the inputs on that path
    inconclusive  timeout, solver `unknown`, model gap, or search not exhausted  (never counted as a pass)
"""
import inspect
import sys
import time
from dataclasses import dataclass, field
from typing import Any, Dict, List, Optional

import z3
from crosshair import statespace as _ss
from crosshair.core import deep_realize, explore_paths, realize
from crosshair.core_and_libs import standalone_statespace  # noqa: F401  (forces plugin registration)
from crosshair.libimpl.builtinslib import SymbolicBool, SymbolicInt
from crosshair.options import DEFAULT_OPTIONS, AnalysisOptionSet
from crosshair.statespace import RootNode, VerificationStatus, context_statespace
from crosshair.tracers import NoTracing, ResumedTracing
from crosshair.util import IgnoreAttempt, UnexploredPath

# --------------------------------------------------------------------------------------------------------
# instrumentation: solver queries / time, branch decisions
STATS = {"solver_checks": 0, "solver_s": 0.0, "forks": 0, "unknown": 0}

_orig_is_sat = _ss.solver_is_sat


def _counted_is_sat(solver, *exprs):
    t0 = time.perf_counter()
    STATS["solver_checks"] += 1
    try:
        return _orig_is_sat(solver, *exprs)
    except _ss.UnknownSatisfiability:
        STATS["unknown"] += 1
        raise
    finally:
        STATS["solver_s"] += time.perf_counter() - t0


_ss.solver_is_sat = _counted_is_sat

_orig_choose = _ss.StateSpace.choose_possible


def _counted_choose(self, expr, probability_true=None):
    STATS["forks"] += 1
    return _orig_choose(self, expr, probability_true)


_ss.StateSpace.choose_possible = _counted_choose

# --------------------------------------------------------------------------------------------------------
_PATH_VARS: List = []     # (name, SymbolicInt) created on the current path
_PATH_NOTES: Dict = {}    # free-form per-path notes (known-finding tags etc.)
VAR_RANGES: Dict = {}     # name -> (lo, hi) of every symbolic input created during the current explore()


def fresh_int(name: str, lo: int, hi: int):
    """A new symbolic int in [lo, hi]; the range is asserted without forking.  Natively (no state space): error."""
    with NoTracing():
        space = context_statespace()
        v = z3.Int(name + "_" + str(space.uniq()))
        space.add(z3.And(v >= lo, v <= hi))
        s = SymbolicInt(v)
        _PATH_VARS.append((name, s))
        VAR_RANGES[name] = (lo, hi)
        return s


def note(key, value=True):
    with NoTracing():
        _PATH_NOTES[key] = value


def assume(cond):
    """Discard the current path unless cond (like a precondition)."""
    if not cond:
        raise IgnoreAttempt("assumption failed")


@dataclass
class Result:
    status: str = "inconclusive"
    reason: str = ""
    paths: int = 0
    confirmed_paths: int = 0
    forks: int = 0
    solver_checks: int = 0
    solver_s: float = 0.0
    cpu_s: float = 0.0
    cex: Optional[Dict[str, Any]] = None
    info: Any = None
    notes: Dict = field(default_factory=dict)
    exc: Optional[str] = None
    vars: Dict = field(default_factory=dict)


def explore(body, timeout: float = 60.0, per_path_timeout: Optional[float] = None, on_fail_info=None) -> Result:
    res = Result()
    VAR_RANGES.clear()
    from . import models as _models
    gaps_before = len(_models.GAPS)
    before = dict(STATS)
    t0 = time.process_time()
    root = RootNode()
    opts = DEFAULT_OPTIONS.overlay(AnalysisOptionSet(
        per_condition_timeout=timeout,
        per_path_timeout=per_path_timeout if per_path_timeout else max(10.0, timeout / 2),
        max_uninteresting_iterations=sys.maxsize,
    ))
    state = {"fail": False}
    all_notes: Dict = {}

    def run_path(_args):
        with NoTracing():
            _PATH_VARS.clear()
            _PATH_NOTES.clear()
            res.paths += 1
        verdict = body()
        info = None
        if isinstance(verdict, tuple):
            verdict, info = verdict
        if verdict:
            with NoTracing():
                state["reached"] = state.get("reached", 0) + 1
                for k, v in _PATH_NOTES.items():
                    all_notes[k] = all_notes.get(k, 0) + 1
            return None
        # failing path: the solver has committed to `not verdict`; read a model of the inputs
        vals = {}
        with NoTracing():
            pv = list(_PATH_VARS)
        for name, s in pv:
            vals[name] = realize(s)
        if info is not None:
            try:
                info = deep_realize(info)
            except Exception:
                info = None
        with NoTracing():
            res.cex = vals
            res.info = info
            state["fail"] = True
        return None

    def done(space, pre_args, args, ret, user_exc, user_exc_stack):
        with NoTracing():
            if user_exc is not None and not state["fail"]:
                # exception escaped the harness body: treat as failing path, model read best-effort
                state["fail"] = True
                res.exc = "%s: %s" % (type(user_exc).__name__, user_exc)
                if user_exc_stack is not None:
                    res.exc += " @ " + " <- ".join(
                        "%s:%s" % (f.filename.rsplit("/", 1)[-1], f.lineno) for f in list(user_exc_stack)[-4:][::-1])
                pv = list(_PATH_VARS)
            else:
                pv = None
        if pv is not None:
            vals = {}
            try:
                for name, s in pv:
                    vals[name] = realize(s)
            except Exception:
                pass
            with NoTracing():
                res.cex = vals
        return state["fail"]

    sig = inspect.Signature([])
    try:
        explore_paths(run_path, sig, opts, root, done)
    except BaseException as e:  # engine failure: inconclusive with reason
        if isinstance(e, (KeyboardInterrupt, SystemExit)):
            raise
        res.reason = "engine exception %s: %s" % (type(e).__name__, e)
    res.cpu_s = time.process_time() - t0
    res.forks = STATS["forks"] - before["forks"]
    res.solver_checks = STATS["solver_checks"] - before["solver_checks"]
    res.solver_s = STATS["solver_s"] - before["solver_s"]
    unknowns = STATS["unknown"] - before["unknown"]
    res.notes = all_notes
    res.vars = dict(VAR_RANGES)
    if state["fail"]:
        res.status = "refuted"
        return res
    if res.reason:
        return res
    child = root.child
    try:
        top = child.get_result()
        exhausted = child.is_exhausted()
        st = top.verification_status
    except Exception as e:
        res.reason = "no result (%s)" % (e,)
        return res
    stats = root.stats() if hasattr(root, "stats") else None
    if exhausted and st == VerificationStatus.CONFIRMED and unknowns == 0 and state.get("reached", 0) == 0:
        res.reason = "vacuous: no path reached the assertion (every path was discarded by an assumption)"
    elif exhausted and st == VerificationStatus.CONFIRMED and unknowns == 0:
        res.status = "confirmed"
        res.confirmed_paths = state.get("reached", 0)
    else:
        why = []
        if not exhausted:
            why.append("search not exhausted (timeout %.0fs)" % timeout)
        if st != VerificationStatus.CONFIRMED:
            why.append("status %s" % (st,))
        if unknowns:
            why.append("%d solver unknown/timeout" % unknowns)
        if len(_models.GAPS) > gaps_before:
            why.append("model gap: " + _models.GAPS[-1])
        res.reason = "; ".join(why)
    return res
