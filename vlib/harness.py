"""
Harness library H: run the REAL assembler / container code on a shape, classify the outcome, extract integer
observations.  The same code runs under CrossHair tracing (symbolic values) and natively (replay, R4).
"""
import contextlib
import os
import sys
import traceback

from crosshair.tracers import NoTracing, is_tracing

from . import models
from .cut import Lit, literals
from .engine import fresh_int, note

REPO = os.environ.get("VERIF_REPO", "/repo")
if REPO not in sys.path:
    sys.path.insert(0, REPO)

import cocoasm.program as _program          # noqa: E402
import cocoasm.statement as _statement      # noqa: E402
import cocoasm.values as _values            # noqa: E402
import cocoasm.virtualfiles.source_file as _source_file            # noqa: E402
import cocoasm.virtualfiles.virtual_file as _virtual_file          # noqa: E402
import cocoasm.virtualfiles.virtual_file_container as _vfc         # noqa: E402
from cocoasm.exceptions import ParseError, TranslationError       # noqa: E402
from cocoasm.program import Program                                # noqa: E402


class HarnessError(Exception):
    """The harness itself is wrong (never a property verdict)."""


class NonTermination(BaseException):
    pass


class Vacuous(Exception):
    """native run outside the obligation's assumptions: counts as holding"""


# ---- fix-point watchdog (DESIGN 2.5): an iteration of the sizing loop that fixes nothing leaves the state
# unchanged, so more than #statements + 1 evaluations of the loop condition proves divergence.
_WD = {"count": 0, "limit": None}
_orig_all_sizes_fixed = Program.all_sizes_fixed


def _counted_all_sizes_fixed(self):
    if _WD["limit"] is not None:
        _WD["count"] += 1
        if _WD["count"] > len(self.statements) + 2:
            raise NonTermination()
    return _orig_all_sizes_fixed(self)


Program.all_sizes_fixed = _counted_all_sizes_fixed


# ---- M7: copy.deepcopy of the container's original_buffer (never read back; checked by scan_original_buffer)
class _ShallowCopy:
    @staticmethod
    def deepcopy(x, memo=None):
        return x[:] if isinstance(x, list) else x

    @staticmethod
    def copy(x):
        import copy as _c
        return _c.copy(x)


def install_m7():
    _vfc.copy = _ShallowCopy


def uninstall_m7():
    import copy as _c
    _vfc.copy = _c


def scan_original_buffer():
    """M7 side condition: `original_buffer` is only ever assigned, never read, anywhere in the tree."""
    import re
    reads = []
    for root, _dirs, files in os.walk(REPO):
        if "/test" in root or "/.git" in root:
            continue
        for f in files:
            if f.endswith(".py"):
                for n, line in enumerate(open(os.path.join(root, f), encoding="utf-8"), 1):
                    if "original_buffer" in line and not re.search(r"self\.original_buffer\s*=", line):
                        reads.append("%s:%d" % (f, n))
    return reads


# ---- M8: in-memory host file system
_WRITE_ORDER = {}


def _write_truncates_first(real_writer):
    """does the real write_binary_contents leave an existing file truncated when the buffer cannot be written?"""
    key = id(real_writer)
    if key not in _WRITE_ORDER:
        import tempfile
        with NoTracing():
            d = tempfile.mkdtemp(prefix="verif-memfs-")
            path = os.path.join(d, "probe.bin")
            try:
                with open(path, "wb") as f:
                    f.write(b"probe")
                try:
                    real_writer.__func__(path, [300]) if hasattr(real_writer, "__func__") else real_writer(path, [300])
                except Exception:  # noqa: BLE001
                    pass
                _WRITE_ORDER[key] = os.path.getsize(path) != 5
            finally:
                try:
                    os.remove(path)
                    os.rmdir(d)
                except OSError:
                    pass
    return _WRITE_ORDER[key]


class MemFS:
    """path -> list of ints (binary) or list of str lines (assembly source); absent = no such file."""

    def __init__(self, files=None):
        self.files = dict(files or {})
        self.writes = []
        self._saved = None

    def __enter__(self):
        fs = self
        self._saved = (
            _source_file.SourceFile.__dict__["read_assembly_contents"],
            _source_file.SourceFile.__dict__["read_binary_contents"],
            _source_file.SourceFile.__dict__["write_binary_contents"],
            _virtual_file.os,
        )

        def read_asm(filename):
            if filename not in fs.files:
                raise FileNotFoundError(2, "No such file or directory", filename)
            if isinstance(fs.files[filename], BaseException):
                raise fs.files[filename]           # e.g. IsADirectoryError / PermissionError entries
            return list(fs.files[filename])

        def read_bin(filename):
            if filename not in fs.files:
                raise FileNotFoundError(2, "No such file or directory", filename)
            return fs.files[filename][:]

        def write_bin(filename, buffer):
            # the host write: open(filename, "wb") truncates, bytearray(buffer) refuses anything outside 0..255.  Which
            # of the two the real SourceFile.write_binary_contents does FIRST is probed on the real function (natively,
            # on a scratch file) so that the model follows the code under test
            with NoTracing():
                bad = any((type(x) is int and not (0 <= x <= 255)) for x in buffer)
            if bad:
                if _write_truncates_first(fs._saved[2]):
                    fs.writes.append(filename)
                    fs.files[filename] = []
                raise ValueError("byte must be in range(0, 256)")
            fs.writes.append(filename)
            fs.files[filename] = buffer[:]

        _source_file.SourceFile.read_assembly_contents = staticmethod(read_asm)
        _source_file.SourceFile.read_binary_contents = staticmethod(read_bin)
        _source_file.SourceFile.write_binary_contents = staticmethod(write_bin)

        class _Path:
            @staticmethod
            def exists(fn):
                return fn in fs.files

        class _Os:
            path = _Path

        _virtual_file.os = _Os
        return self

    def __exit__(self, *exc):
        ra, rb, wb, os_ = self._saved
        _source_file.SourceFile.read_assembly_contents = ra
        _source_file.SourceFile.read_binary_contents = rb
        _source_file.SourceFile.write_binary_contents = wb
        _virtual_file.os = os_
        return False


# ---- outcome classification (DESIGN 2.5)
class Outcome:
    """kind: 'ok' | 'diag' | 'internal' | 'loop'"""

    def __init__(self, kind, program=None, exc=None, site=None):
        self.kind = kind
        self.program = program
        self.exc = exc
        self.site = site

    @property
    def ok(self):
        return self.kind == "ok"

    @property
    def exc_name(self):
        return type(self.exc).__name__ if self.exc is not None else None

    def describe(self):
        if self.kind == "ok":
            return "accepted"
        if self.kind == "loop":
            return "non-termination (sizing loop)"
        return "%s %s%s" % (self.kind, self.exc_name, (" @" + self.site) if self.site else "")


def _site(tb):
    """innermost frame inside the repository, as file:function (line numbers omitted: stable across edits)"""
    best = None
    for fs in traceback.extract_tb(tb):
        if fs.filename.startswith(REPO):
            best = "%s:%s" % (os.path.relpath(fs.filename, REPO), fs.name)
    return best


class _WallClock(BaseException):
    pass


def _on_alarm(signum, frame):
    raise _WallClock()


def assemble(lines, watchdog=True, wall_limit=None):
    """Program().process(lines) on the real code; returns an Outcome.
    wall_limit (seconds, concrete inputs only): a run that exceeds it is classified as non-termination."""
    import signal
    p = Program()
    _WD["count"] = 0
    _WD["limit"] = True if watchdog else None
    if wall_limit:
        old = signal.signal(signal.SIGALRM, _on_alarm)
        signal.setitimer(signal.ITIMER_REAL, wall_limit)
    try:
        # as SourceFile.readlines() delivers them; a list whose lines are already terminated is passed as it is (the
        # caller can then see whether the assembler modified ITS list)
        src = lines if all(l.endswith("\n") for l in lines) else [l if l.endswith("\n") else l + "\n" for l in lines]
        p.process(src)
    except _WallClock:
        return Outcome("loop", p)
    except (ParseError, TranslationError) as e:
        return Outcome("diag", p, e)
    except NonTermination:
        return Outcome("loop", p)
    except Exception as e:  # noqa: BLE001 -- CrossHair's control exceptions are BaseException and pass through
        return Outcome("internal", p, e, _site(e.__traceback__))
    finally:
        _WD["limit"] = None
        if wall_limit:
            signal.setitimer(signal.ITIMER_REAL, 0)
            signal.signal(signal.SIGALRM, old)
    return Outcome("ok", p)


def outputs(program):
    """everything a front end derives from an accepted program: image, listing, symbol table (C13: generating them must
    not fail either).  -> None, or (exception, site)"""
    try:
        program.get_binary_array()
        [str(x) for x in program.get_statements()]
        [str(x) for x in program.get_symbol_table()]
    except Exception as e:  # noqa: BLE001
        return e, _site(e.__traceback__)
    return None


def stmt_bytes(statement):
    """bytes of one statement, through the real get_binary_array"""
    q = Program()
    q.statements = [statement]
    return q.get_binary_array()


def image(program):
    return program.get_binary_array()


def symbols(program):
    return {k: v.int for k, v in program.symbol_table.items()}


# ---- execution context shared by symbolic and native runs
class Ctx:
    def __init__(self, symbolic, values=None):
        self.symbolic = symbolic
        self.values = values or {}
        self.lits = []
        self.used = {}
        self.strict = False     # True: known findings are not accepted (used to replay their witnesses)
        self.lenient = False    # True: a replay value that is missing defaults to the lower bound

    def int(self, name, lo, hi):
        if self.symbolic:
            return fresh_int(name, lo, hi)
        if name not in self.values and self.lenient:
            self.values[name] = lo
        v = self.values[name]
        self.used[name] = v
        if not (lo <= v <= hi):
            raise HarnessError("replay value %s=%r outside [%d,%d]" % (name, v, lo, hi))
        return v

    def lit(self, cls, name, slot=None):
        """-> (text for the source line, signed value denoted by the text)"""
        if slot is None:
            base = Lit(cls, name).base
            slot = sum(1 for l in self.lits if l.base == base)
        lit = Lit(cls, name, slot)
        self.lits.append(lit)
        if self.symbolic:
            v = fresh_int(name, lit.lo, lit.hi)
            with NoTracing():
                models.LITERALS[(lit.ph, lit.base)] = v
            return lit.placeholder_text(), lit.signed(v)
        v = self.int(name, lit.lo, lit.hi)
        return lit.real_text(v), lit.signed(v)

    def assume(self, cond):
        """discard the case unless cond (symbolic: path ignored; native: the run is vacuous)"""
        if self.symbolic:
            from .engine import assume as _assume
            _assume(cond)
        elif not cond:
            raise Vacuous()

    def known(self, prop, tags, envd):
        from . import known as _known
        return _known.match(prop, tags, envd, strict=self.strict)

    def check_hits(self, required=True):
        """every placeholder must have been parsed through the cut at least once on this path"""
        if not self.symbolic:
            return
        with NoTracing():
            for lit in self.lits:
                if models.LITERAL_HITS.get((lit.ph, lit.base), 0) == 0 and required:
                    raise HarnessError("literal cut never hit for %s (%s): run would be concrete" % (lit.var, lit.ph))


@contextlib.contextmanager
def env(ctx):
    """model layer + literal cut table for a symbolic run; nothing for a native run"""
    if ctx.symbolic:
        with models.layer(), literals({}):
            yield
    else:
        yield
