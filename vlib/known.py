"""
Known findings (DESIGN 2.7).  /verif/known_findings.json is committed and read-only at run time.

An entry is a *class* of genuine defects of the unchanged tree:
    where      shape pattern: {tag: value | [values]} matched against the obligation's tags
    when       predicate over the symbolic inputs        (python expression over the obligation's env)
    signature  predicate over the observed wrong outcome (python expression over the obligation's env)
An obligation's verdict is  ok or (where and when and signature)  -- so the solver still explores every path, and
a different wrong outcome for the same inputs, or the same outcome outside `when`, is a fresh violation.
Entries with status "fixed" suppress nothing.
"""
import json
import os

from crosshair.tracers import NoTracing

from .engine import note

HERE = os.path.dirname(os.path.dirname(os.path.abspath(__file__)))
PATH = os.path.join(HERE, "known_findings.json")

_SAFE = {"len": len, "abs": abs, "min": min, "max": max, "all": all, "any": any, "range": range, "sum": sum,
         "list": list, "zip": zip, "enumerate": enumerate, "sorted": sorted, "set": set, "tuple": tuple, "bool": bool,
         "True": True, "False": False, "None": None, "isinstance": isinstance, "int": int, "str": str}

_CACHE = {}


def load():
    if "entries" not in _CACHE:
        if os.path.exists(PATH):
            with open(PATH) as f:
                data = json.load(f)
        else:
            data = {"findings": []}
        ents = data.get("findings", [])
        for e in ents:
            e["_when"] = compile(e.get("when", "True"), "<when %s>" % e["id"], "eval")
            e["_sig"] = compile(e.get("signature", "True"), "<signature %s>" % e["id"], "eval")
        _CACHE["entries"] = ents
    return _CACHE["entries"]


def entries(prop, include_fixed=False):
    return [e for e in load() if prop in _props(e) and (include_fixed or e.get("status", "open") == "open")]


def _props(e):
    p = e["property"]
    return p if isinstance(p, list) else [p]


def witness(e, prop):
    """(oid, values) of the entry's witness for this property, or None"""
    w = e.get("witness")
    if not w:
        return None
    oid = w.get("oid")
    if isinstance(oid, dict):
        oid = oid.get(prop)
    if oid is None:
        return None
    vals = w["values"]
    if vals and all(isinstance(v, dict) for v in vals.values()):
        vals = vals.get(prop, {})          # per-property witness values
    return oid, vals


def _where(e, tags):
    for k, want in e.get("where", {}).items():
        have = tags.get(k)
        if isinstance(want, list):
            if have not in want:
                return False
        elif have != want:
            return False
    return True


def match(prop, tags, env, strict=False):
    """true (possibly symbolic) if the failing outcome described by env is one of the listed known findings"""
    if strict:
        return False
    with NoTracing():
        cands = [e for e in entries(prop) if _where(e, tags)]
    for e in cands:
        g = dict(_SAFE)
        g.update(env)                      # as globals too: generator expressions do not see eval() locals
        g["__builtins__"] = {}
        try:
            w = eval(e["_when"], g, env)
        except (KeyError, NameError, TypeError, IndexError, AttributeError):
            w = False
        if w:
            try:
                s = eval(e["_sig"], g, env)
            except (KeyError, NameError, TypeError, IndexError, AttributeError):
                s = False
            if s:
                note("KF:" + e["id"])
                return True
    return False
