"""
Primitive-model layer M (DESIGN 2.2): exact, solver-friendly models of the few CPython builtins that stock
CrossHair would *realise* (replace by one concrete value).  No function of the repository is modelled here.

  M1  format(int, spec) / "{...}".format(int)     -> string of codepoint terms
  M2  hex(int)
  M3  int(str, 16) on M1/M2 strings                -> branch free via identity side table
  M4  int | int, int ^ int                         -> a+b after a solver-checked disjointness fork, else bit decomposition
  M5  int(int / int)                               -> ratio object, int() = truncating division
  M6  pattern.match(decimal rendering)             -> decided by z3 regex inclusion on the pattern's own source
  R1  any other symbolic string reaching `re`      -> ModelGap (path is inconclusive)

Installed with `with layer():` inside a traced region.
"""
import contextlib
import operator as ops
import re as _re
from typing import Union

import z3
from crosshair.core import realize
from crosshair.libimpl import builtinslib as _bl
from crosshair.libimpl.builtinslib import AnySymbolicStr, LazyIntSymbolicStr, SymbolicInt
from crosshair.statespace import context_statespace
from crosshair.tracers import COMPOSITE_TRACER, NoTracing, ResumedTracing, is_tracing
from crosshair.util import CrosshairUnsupported

try:
    import re._parser as _sre
except ImportError:  # pragma: no cover
    import sre_parse as _sre


class ModelGap(CrosshairUnsupported):
    """A primitive was used outside the modelled subset: the current path is inconclusive (never a pass)."""


GAPS = []  # reasons recorded for the evidence


def gap(reason):
    with NoTracing():
        GAPS.append(reason)
    raise ModelGap(reason)


# --------------------------------------------------------------------------------------------------------
# M1 / M2: rendering
_SPEC = _re.compile(r"^(?:(?P<fill>.)?(?P<align>[<>=^]))?(?P<zero>0)?(?P<width>\d+)?(?P<ty>[Xxd]?)$")

_NIB = {}   # id(codepoint term) -> (nibble term, codepoint term)     [hex digits produced by M1/M2]
_DEC = {}   # id(first digit codepoint) -> (magnitude term, ndigits, codepoints) [decimal renderings]


class DecStr(LazyIntSymbolicStr):
    """Decimal rendering of a symbolic int (keeps the source term for M6)."""


def _digits(n, base, upper=True):
    """n: int-like >= 0 (tracing on). Codepoint terms, most significant first. Forks on the digit count only."""
    cps = []
    while True:
        d = n % base
        cp = 48 + d + (d >= 10) * (7 if upper else 39)
        with NoTracing():
            _NIB[id(cp)] = (d, cp)
        cps.append(cp)
        n = n // base
        if n == 0:
            break
    cps.reverse()
    return cps


def _sym_format(obj, format_spec=""):
    with NoTracing():
        symbolic = isinstance(obj, SymbolicInt)
        if symbolic and isinstance(format_spec, AnySymbolicStr):
            symbolic_spec = True
        else:
            symbolic_spec = False
        m = _SPEC.match(format_spec) if (symbolic and not symbolic_spec) else None
    if symbolic_spec:
        gap("symbolic format spec")
    if not symbolic:
        return format(obj, format_spec)
    if m is None:
        gap("format spec outside the modelled grammar: %r" % (format_spec,))
    ty = m.group("ty") or "d"
    fill = m.group("fill") or ("0" if m.group("zero") else " ")
    align = m.group("align") or ("=" if m.group("zero") else ">")
    width = int(m.group("width") or 0)
    neg = obj < 0
    if neg:
        if ty != "d":
            # negative hex renderings never occur in a run that ends well; keep exact anyway
            pass
        mag = -obj
    else:
        mag = obj
    cps = _digits(mag, 16 if ty in "Xx" else 10, upper=(ty == "X"))
    ndig = len(cps)
    if neg:
        cps = [45] + cps
    pad = width - len(cps)
    if pad > 0:
        if align == ">":
            cps = [ord(fill)] * pad + cps
        elif align == "<":
            cps = cps + [ord(fill)] * pad
        elif align == "=":
            cps = ([45] if neg else []) + [ord(fill)] * pad + (cps[1:] if neg else cps)
        else:
            gap("centre alignment")
    with NoTracing():
        if ty == "d" and width == 0:
            r = DecStr(cps)
            _DEC[id(cps[1] if neg else cps[0])] = (mag, ndig, cps)
            return r
        return LazyIntSymbolicStr(cps)


def _sym_hex(n):
    with NoTracing():
        symbolic = isinstance(n, SymbolicInt)
    if not symbolic:
        return hex(n)
    if n < 0:
        cps = [45, 48, 120] + _digits(-n, 16, upper=False)
    else:
        cps = [48, 120] + _digits(n, 16, upper=False)
    with NoTracing():
        return LazyIntSymbolicStr(cps)


def _items(symstr):
    """list of the codepoint objects of a LazyIntSymbolicStr, or None (no tracing)."""
    cps = symstr._codepoints
    try:
        if isinstance(cps, (list, tuple)):
            return list(cps)
        n = cps.__len__()
        if not isinstance(n, int):
            return None
        return [cps[i] for i in range(n)]
    except BaseException:
        return None


# --------------------------------------------------------------------------------------------------------
# M3: parsing   (+ M5 int(ratio), + the literal cut, all behind the single `int` patch)
LITERALS = {}      # (text, base) -> symbolic int           [installed by cut.literals]
LITERAL_HITS = {}  # (text, base) -> count on the current path


class IntRatio:
    """int / int kept as an exact ratio; only int() of it is supported symbolically (M5)."""

    def __init__(self, num, den):
        self.num, self.den = num, den

    def __int__(self):
        n, d = self.num, self.den
        if (n >= 0) == (d > 0):
            return abs(n) // abs(d)
        return -(abs(n) // abs(d))

    def __float__(self):
        return realize(self.num) / realize(self.den)


_HEXCH = "0123456789abcdefABCDEF"


def _sym_int(val=0, base=None):
    with NoTracing():
        kind = 0
        if type(val) is str and LITERALS:
            key = (val, base)
            if key in LITERALS:
                LITERAL_HITS[key] = LITERAL_HITS.get(key, 0) + 1
                return LITERALS[key]
        if type(val) is IntRatio:
            kind = 1
        elif isinstance(val, LazyIntSymbolicStr):
            kind = 2
            items = _items(val)
            fast = None
            if items and base == 16:
                fast = []
                for cp in items:
                    if type(cp) is int and chr(cp) in _HEXCH:
                        fast.append(int(chr(cp), 16))
                    elif id(cp) in _NIB and _NIB[id(cp)][1] is cp:
                        fast.append(_NIB[id(cp)][0])
                    else:
                        fast = None
                        break
            elif items and base == 10:
                dec = _as_dec_items(items)
                if dec is not None:
                    kind = 3
    if kind == 1:
        return val.__int__()
    if kind == 3:
        neg, mag = dec
        return -mag if neg else mag
    if kind == 2 and base == 16:
        if fast:
            ret = 0
            for d in fast:
                ret = ret * 16 + d
            return ret
        if len(val) == 0:
            raise ValueError("invalid literal for int() with base 16: ''")
        ret = 0
        for ch in val:
            c = ord(ch)
            if 48 <= c <= 57:
                d = c - 48
            elif 65 <= c <= 70:
                d = c - 55
            elif 97 <= c <= 102:
                d = c - 87
            else:
                raise ValueError("invalid literal for int() with base 16")
            ret = ret * 16 + d
        return ret
    if base is None:
        return int(val)
    return int(val, base)


# --------------------------------------------------------------------------------------------------------
# M4: | and ^        M5: /
_W = 17


def _as_smt(x):
    return x.var if isinstance(x, SymbolicInt) else z3.IntVal(int(x))


def _bits(space, term):
    bs = [z3.Int("bit%s_%d" % (space.uniq(), i)) for i in range(_W)]
    for b in bs:
        space.add(z3.And(b >= 0, b <= 1))
    space.add(term == z3.Sum([b * (1 << i) for i, b in enumerate(bs)]))
    return bs


def _bitop(op, a: Union[SymbolicInt, int], b: Union[SymbolicInt, int]):
    with NoTracing():
        if not (isinstance(a, SymbolicInt) or isinstance(b, SymbolicInt)):
            return op(a, b)
        space = context_statespace()
        if not isinstance(a, SymbolicInt):
            a, b = b, a
        sa, sb = _as_smt(a), _as_smt(b)
        inrange = z3.And(sa >= 0, sa < 2 ** _W, sb >= 0, sb < 2 ** _W)
        if space.smt_fork(inrange, probability_true=0.99):
            if not isinstance(b, SymbolicInt) and op is ops.or_:
                c = int(b)
                tz = (c & -c).bit_length() - 1 if c else _W
                if space.smt_fork(sa < (1 << tz), probability_true=0.9):
                    return SymbolicInt(sa + c)  # disjoint fields: a | c == a + c
                # a's high part vs constant low part: (a % 2^k == 0 and c < 2^k)
                k = c.bit_length()
                if space.smt_fork(sa % (1 << k) == 0, probability_true=0.9):
                    return SymbolicInt(sa + c)
            if op is ops.or_ and isinstance(b, SymbolicInt):
                for k in (8, 4, 12):
                    m = 1 << k
                    if space.smt_fork(z3.And(sa % m == 0, sb < m), probability_true=0.9):
                        return SymbolicInt(sa + sb)
                    if space.smt_fork(z3.And(sb % m == 0, sa < m), probability_true=0.9):
                        return SymbolicInt(sa + sb)
            ba, bb = _bits(space, sa), _bits(space, sb)
            if op is ops.or_:
                r = z3.Sum([z3.If(z3.Or(x == 1, y == 1), 1 << i, 0) for i, (x, y) in enumerate(zip(ba, bb))])
            else:
                r = z3.Sum([z3.If(x != y, 1 << i, 0) for i, (x, y) in enumerate(zip(ba, bb))])
            return SymbolicInt(r)
    return op(a.__index__(), b.__index__())


def _truediv(op, a: Union[SymbolicInt, int], b: Union[SymbolicInt, int]):
    with NoTracing():
        if not (isinstance(a, SymbolicInt) or isinstance(b, SymbolicInt)):
            return op(a, b)
    if b == 0:
        raise ZeroDivisionError("division by zero")
    with NoTracing():
        DIVISORS.add(b if type(b) is int else "symbolic")
        return IntRatio(a, b)


DIVISORS = set()   # constant divisors met (for the M5 lemma), or "symbolic"

_bl.setup_binop(_bitop, {ops.or_, ops.xor})
_bl.setup_binop(_truediv, {ops.truediv})


# --------------------------------------------------------------------------------------------------------
# M6 / R1: regular expressions
def _to_z3(tree):
    parts = []
    for op, av in tree:
        name = str(op)
        if name == "LITERAL":
            parts.append(z3.Re(chr(av)))
        elif name == "IN":
            alts = []
            for o, a in av:
                o = str(o)
                if o == "LITERAL":
                    alts.append(z3.Re(chr(a)))
                elif o == "RANGE":
                    alts.append(z3.Range(chr(a[0]), chr(a[1])))
                elif o == "CATEGORY" and str(a) == "CATEGORY_DIGIT":
                    alts.append(z3.Range("0", "9"))
                elif o == "CATEGORY" and str(a) == "CATEGORY_WORD":
                    alts.extend([z3.Range("0", "9"), z3.Range("a", "z"), z3.Range("A", "Z"), z3.Re("_")])
                else:
                    raise NotImplementedError((o, a))
            parts.append(z3.Union(*alts) if len(alts) > 1 else alts[0])
        elif name == "MAX_REPEAT":
            lo, hi, sub = av
            r = _to_z3(sub)
            if lo == 1 and str(hi) == "MAXREPEAT":
                parts.append(z3.Plus(r))
            elif lo == 0 and str(hi) == "MAXREPEAT":
                parts.append(z3.Star(r))
            else:
                raise NotImplementedError(av)
        elif name == "SUBPATTERN":
            parts.append(_to_z3(av[3]))
        elif name == "AT":
            pass
        else:
            raise NotImplementedError(name)
    if not parts:
        return z3.Re("")
    return z3.Concat(*parts) if len(parts) > 1 else parts[0]


_DIG = z3.Union(z3.Re("0"), z3.Concat(z3.Range("1", "9"), z3.Star(z3.Range("0", "9"))))
_LANG = {"nonneg": _DIG, "neg": z3.Concat(z3.Re("-"), _DIG)}
_RXCACHE = {}
RX_QUERIES = [0, 0.0]   # number of z3 regex queries, seconds


def _classify(pat):
    import time as _t
    key = pat.pattern
    if key not in _RXCACHE:
        t0 = _t.perf_counter()
        try:
            tree = _sre.parse(key)
            R = _to_z3(tree)
        except NotImplementedError:
            _RXCACHE[key] = None
            return None
        prefix = 0
        groups = 0
        for op, av in tree:
            if str(op) == "LITERAL":
                prefix += 1
            elif str(op) == "SUBPATTERN":
                groups += 1
                break
            elif str(op) == "AT":
                continue
            else:
                break
        res = {}
        x = z3.String("x")
        for ln, L in _LANG.items():
            s1 = z3.Solver()
            s1.set(timeout=20000)
            s1.add(z3.InRe(x, L), z3.InRe(x, R))
            some = str(s1.check())
            s2 = z3.Solver()
            s2.set(timeout=20000)
            s2.add(z3.InRe(x, L), z3.Not(z3.InRe(x, R)))
            miss = str(s2.check())
            RX_QUERIES[0] += 2
            res[ln] = "all" if (some == "sat" and miss == "unsat") else "none" if (some == "unsat") else "mixed"
        gnames = list(pat.groupindex.keys())
        _RXCACHE[key] = (res, prefix, gnames)
        RX_QUERIES[1] += _t.perf_counter() - t0
    return _RXCACHE[key]


class _FakeMatch:
    def __init__(self, groups):
        self._g = groups

    def group(self, name=0):
        return self._g[name]


def _as_dec_items(items):
    """(is_negative, magnitude term) if items is exactly a decimal rendering made by M1, else None"""
    if not items:
        return None
    neg = type(items[0]) is int and items[0] == 45
    body = items[1:] if neg else items
    if not body or id(body[0]) not in _DEC:
        return None
    mag, nd, cps = _DEC[id(body[0])]
    tail = cps[-nd:]
    if len(body) != nd or not all(x is y for x, y in zip(body, tail)):
        return None
    return (neg, mag)


def _pat_apply(kind):
    def patched(self, string, *a, **kw):
        with NoTracing():
            issym = isinstance(string, AnySymbolicStr)
            items = _items(string) if isinstance(string, LazyIntSymbolicStr) else None
            dec = _as_dec_items(items) if items else None
            cls = _classify(self) if dec is not None else None
        if not issym:
            return getattr(self, kind)(string, *a, **kw)
        if dec is None:
            gap("R1: symbolic string reached re.%s(%r)" % (kind, self.pattern))
        if cls is None or a or kw:
            gap("M6: pattern outside the translated subset: %r" % (self.pattern,))
        res, prefix, gnames = cls
        neg = dec[0]
        verdict = res["neg" if neg else "nonneg"]
        if verdict == "none":
            return None
        if verdict != "all" or len(gnames) != 1:
            gap("M6: mixed verdict for %r" % (self.pattern,))
        with NoTracing():
            g = DecStr(items[prefix:])
        return _FakeMatch({gnames[0]: g, 1: g, 0: string})
    return patched


_LAYER = {
    format: _sym_format,
    hex: _sym_hex,
    int: _sym_int,
    _re.Pattern.match: _pat_apply("match"),
    _re.Pattern.search: _pat_apply("search"),
    _re.Pattern.fullmatch: _pat_apply("fullmatch"),
}


@contextlib.contextmanager
def layer():
    """Install M1-M6 for the duration of the block (must be entered while tracing)."""
    with NoTracing():
        _NIB.clear()
        _DEC.clear()
        COMPOSITE_TRACER.patching_module.add(_LAYER)
    try:
        yield
    finally:
        with NoTracing():
            COMPOSITE_TRACER.patching_module.pop(_LAYER)


# --------------------------------------------------------------------------------------------------------
# self-test of the models against CPython (translator validation; run by the driver once per run)
def selftest(seed=0, n=400):
    """Differential test M1-M5 vs CPython on boundary + random ints. Returns number of comparisons."""
    import random
    from .engine import explore, fresh_int  # local import: engine imports models
    rnd = random.Random(seed)
    pts = [0, 15, 16, 127, 128, 255, 256, 32768, 65535, 99999]
    if n > 8:
        pts += [9, 10, 4095, 4096, 9999, 10000, 32767, 65536, 1, 17, 99, 100, 129, 257, 999, 1000]
    pts += [rnd.randrange(0, 100000) for _ in range(n)]
    count = [0]
    bad = []

    def one(v0, w0):
        def body():
            v = fresh_int("v", v0, v0)
            w = fresh_int("w", w0, w0)
            with layer():
                got = [
                    realize("{:0>4X}".format(v)), realize("{:0>2X}".format(v)), realize("{:X}".format(v)),
                    realize("{}".format(v)), realize("{}".format(-v)), realize(hex(v)),
                    realize(int("{:0>4X}".format(v), 16)), realize(int(hex(v)[2:], 16)),
                    realize(v | w), realize(v ^ w), realize((v << 8) | (w % 256)), realize(v | 0x80),
                    realize(int(v / (w + 1))), realize(int(v / 2304) + 1), realize(int(v / 2)),
                ]
            exp = [
                "{:0>4X}".format(v0), "{:0>2X}".format(v0), "{:X}".format(v0), "{}".format(v0), "{}".format(-v0),
                hex(v0), int("{:0>4X}".format(v0), 16), int(hex(v0)[2:], 16), v0 | w0, v0 ^ w0,
                (v0 << 8) | (w0 % 256), v0 | 0x80, int(v0 / (w0 + 1)), int(v0 / 2304) + 1, int(v0 / 2),
            ]
            with NoTracing():
                count[0] += len(exp)
                if got != exp:
                    bad.append((v0, w0, got, exp))
            return True
        explore(body, timeout=30)

    for i, p in enumerate(pts):
        one(p, pts[(i * 7 + 3) % len(pts)] % 65536)
    if bad:
        raise AssertionError("model layer disagrees with CPython: %r" % (bad[:3],))
    return count[0]


# --------------------------------------------------------------------------------------------------------
# M5 lemma: for a constant divisor k, truncating the IEEE-754 double quotient equals integer division
def lemma_int_div(k, bits=17, timeout_ms=120000):
    """discharges  forall a < 2^bits : to_ubv_RTZ(fp.div_RNE(double(a), double(k))) == a udiv k   (QF_BVFP, z3).
    Returns (verdict, seconds); verdict must be 'unsat' (no counterexample)."""
    import time as _t
    a = z3.BitVec("a", 32)
    F = z3.Float64()
    fa = z3.fpUnsignedToFP(z3.RNE(), a, F)
    fk = z3.fpUnsignedToFP(z3.RNE(), z3.BitVecVal(k, 32), F)
    q = z3.fpToUBV(z3.RTZ(), z3.fpDiv(z3.RNE(), fa, fk), z3.BitVecSort(32))
    s = z3.Solver()
    s.set(timeout=timeout_ms)
    s.add(z3.ULT(a, z3.BitVecVal(1 << bits, 32)))
    s.add(q != z3.UDiv(a, z3.BitVecVal(k, 32)))
    t0 = _t.perf_counter()
    r = str(s.check())
    return r, round(_t.perf_counter() - t0, 2)


def gate_m5(divisors=(2, 256, 2304)):
    out = {}
    for k in divisors:
        r, t = lemma_int_div(k)
        out["int(a/%d)" % k] = "%s in %ss" % (r, t)
        if r != "unsat":
            raise AssertionError("M5 lemma for divisor %d not discharged: %s" % (k, r))
    return out
