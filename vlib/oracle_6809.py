"""
O-6809: an MC6809 instruction decoder written from the datasheet opcode map (MC6809 programming model, pages 1/2/3,
indexed post-byte table, PSH/PUL and TFR/EXG post-bytes).  Independent of cocoasm/instruction.py.

decode(bytes) -> Dec or None.  Written with div/mod arithmetic so it also executes on symbolic bytes with few forks.
"""

# ---- page 1 ------------------------------------------------------------------------------------------------
# memory read-modify-write group: low nibble -> operation (rows $0x direct, $6x indexed, $7x extended;
# rows $4x / $5x are the inherent A / B forms)
_RMW = {0x0: "NEG", 0x3: "COM", 0x4: "LSR", 0x6: "ROR", 0x7: "ASR", 0x8: "ASL", 0x9: "ROL", 0xA: "DEC",
        0xC: "INC", 0xD: "TST", 0xE: "JMP", 0xF: "CLR"}

_MISC = {  # opcode -> (op, mode)
    0x12: ("NOP", "inh"), 0x13: ("SYNC", "inh"), 0x16: ("LBRA", "rel16"), 0x17: ("LBSR", "rel16"),
    0x19: ("DAA", "inh"), 0x1A: ("ORCC", "imm8"), 0x1C: ("ANDCC", "imm8"), 0x1D: ("SEX", "inh"),
    0x1E: ("EXG", "pair"), 0x1F: ("TFR", "pair"),
    0x30: ("LEAX", "idx"), 0x31: ("LEAY", "idx"), 0x32: ("LEAS", "idx"), 0x33: ("LEAU", "idx"),
    0x34: ("PSHS", "regs"), 0x35: ("PULS", "regs"), 0x36: ("PSHU", "regs"), 0x37: ("PULU", "regs"),
    0x39: ("RTS", "inh"), 0x3A: ("ABX", "inh"), 0x3B: ("RTI", "inh"), 0x3C: ("CWAI", "imm8"),
    0x3D: ("MUL", "inh"), 0x3F: ("SWI", "inh"),
}

_BRANCH = ["BRA", "BRN", "BHI", "BLS", "BCC", "BCS", "BNE", "BEQ", "BVC", "BVS", "BPL", "BMI", "BGE", "BLT",
           "BGT", "BLE"]

# accumulator / register group: rows $8x-$Bx (first table) and $Cx-$Fx (second table): low nibble -> (op, 16-bit?)
_ACC_A = {0x0: ("SUBA", 0), 0x1: ("CMPA", 0), 0x2: ("SBCA", 0), 0x3: ("SUBD", 1), 0x4: ("ANDA", 0), 0x5: ("BITA", 0),
          0x6: ("LDA", 0), 0x7: ("STA", 0), 0x8: ("EORA", 0), 0x9: ("ADCA", 0), 0xA: ("ORA", 0), 0xB: ("ADDA", 0),
          0xC: ("CMPX", 1), 0xD: ("JSR", 0), 0xE: ("LDX", 1), 0xF: ("STX", 1)}
_ACC_B = {0x0: ("SUBB", 0), 0x1: ("CMPB", 0), 0x2: ("SBCB", 0), 0x3: ("ADDD", 1), 0x4: ("ANDB", 0), 0x5: ("BITB", 0),
          0x6: ("LDB", 0), 0x7: ("STB", 0), 0x8: ("EORB", 0), 0x9: ("ADCB", 0), 0xA: ("ORB", 0), 0xB: ("ADDB", 0),
          0xC: ("LDD", 1), 0xD: ("STD", 1), 0xE: ("LDU", 1), 0xF: ("STU", 1)}
_NO_IMM = {"STA", "STB", "STD", "STX", "STU", "STY", "STS", "JSR"}   # no immediate form ($8D is BSR)

# ---- page 2 ($10) / page 3 ($11): (row base, low nibble) -> op, all 16 bit
_P2 = {0x3: "CMPD", 0xC: "CMPY", 0xE: "LDY", 0xF: "STY"}          # rows $8x-$Bx
_P2B = {0xE: "LDS", 0xF: "STS"}                                     # rows $Cx-$Fx
_P3 = {0x3: "CMPU", 0xC: "CMPS"}                                    # rows $8x-$Bx

ALIASES = {"LSL": "ASL", "LSLA": "ASLA", "LSLB": "ASLB", "BHS": "BCC", "BLO": "BCS", "LBHS": "LBCC", "LBLO": "LBCS"}


def canonical(mnemonic):
    return ALIASES.get(mnemonic, mnemonic)


IDX_REGS = ["X", "Y", "U", "S"]
PAIR_CODES = {"D": 0, "X": 1, "Y": 2, "U": 3, "S": 4, "PC": 5, "A": 8, "B": 9, "CC": 10, "DP": 11}
PAIR_16 = {"D", "X", "Y", "U", "S", "PC"}
STACK_BITS = {"CC": 0x01, "A": 0x02, "B": 0x04, "DP": 0x08, "X": 0x10, "Y": 0x20, "PC": 0x80}  # U/S -> 0x40; D = A+B


class Dec:
    """one decoded instruction"""

    def __init__(self, op, mode, length, value=None, idx=None):
        self.op, self.mode, self.length, self.value, self.idx = op, mode, length, value, idx

    def __repr__(self):
        return "Dec(%s,%s,len=%s,value=%r,idx=%r)" % (self.op, self.mode, self.length, self.value, self.idx)


def _word(b, i):
    return b[i] * 256 + b[i + 1]


def _s8(x):
    return x - 256 * (x // 128)


def _s16(x):
    return x - 65536 * (x // 32768)


def decode_postbyte(b, i):
    """indexed addressing starting at post-byte b[i] -> (idx dict, number of bytes used incl. post-byte) or None"""
    if len(b) <= i:
        return None
    pb = b[i]
    if pb < 128:
        off5 = pb % 32
        return ({"kind": "const", "reg": (pb // 32), "ind": 0, "offset": off5 - 32 * (off5 // 16), "width": 5}, 1)
    reg = (pb // 32) % 4
    ind = (pb // 16) % 2
    low = pb % 16
    if low == 0x0 or low == 0x2:
        if ind:
            return None                       # [,R+] and [,-R] are illegal
        return ({"kind": "inc1" if low == 0 else "dec1", "reg": reg, "ind": 0}, 1)
    if low == 0x1:
        return ({"kind": "inc2", "reg": reg, "ind": ind}, 1)
    if low == 0x3:
        return ({"kind": "dec2", "reg": reg, "ind": ind}, 1)
    if low == 0x4:
        return ({"kind": "const", "reg": reg, "ind": ind, "offset": 0, "width": 0}, 1)
    if low == 0x5:
        return ({"kind": "accB", "reg": reg, "ind": ind}, 1)
    if low == 0x6:
        return ({"kind": "accA", "reg": reg, "ind": ind}, 1)
    if low == 0xB:
        return ({"kind": "accD", "reg": reg, "ind": ind}, 1)
    if low == 0x8:
        if len(b) < i + 2:
            return None
        return ({"kind": "const", "reg": reg, "ind": ind, "offset": _s8(b[i + 1]), "width": 8}, 2)
    if low == 0x9:
        if len(b) < i + 3:
            return None
        return ({"kind": "const", "reg": reg, "ind": ind, "offset": _s16(_word(b, i + 1)), "width": 16}, 3)
    if low == 0xC:
        if len(b) < i + 2:
            return None
        return ({"kind": "pcr", "reg": None, "ind": ind, "offset": _s8(b[i + 1]), "width": 8}, 2)
    if low == 0xD:
        if len(b) < i + 3:
            return None
        return ({"kind": "pcr", "reg": None, "ind": ind, "offset": _s16(_word(b, i + 1)), "width": 16}, 3)
    if low == 0xF:
        if not ind or reg != 0:
            return None                       # only $9F is defined
        if len(b) < i + 3:
            return None
        return ({"kind": "extind", "reg": None, "ind": 1, "address": _word(b, i + 1)}, 3)
    return None                               # $x7, $xA, $xE undefined


def _mem(op, row, b, i, is16):
    """operand for the rows imm(0)/dir(1)/idx(2)/ext(3); i = index of first operand byte -> Dec or None"""
    if row == 0:
        if op in _NO_IMM:
            return None
        if is16:
            if len(b) < i + 2:
                return None
            return Dec(op, "imm16", i + 2, value=_word(b, i))
        if len(b) < i + 1:
            return None
        return Dec(op, "imm8", i + 1, value=b[i])
    if row == 1:
        if len(b) < i + 1:
            return None
        return Dec(op, "dir", i + 1, value=b[i])
    if row == 2:
        r = decode_postbyte(b, i)
        if r is None:
            return None
        idx, used = r
        return Dec(op, "idx", i + used, idx=idx)
    if len(b) < i + 2:
        return None
    return Dec(op, "ext", i + 2, value=_word(b, i))


def decode(b):
    """decode the instruction at the start of byte list b -> Dec (length = bytes consumed) or None if undefined/short"""
    if len(b) == 0:
        return None
    o = b[0]
    if o == 0x10 or o == 0x11:
        if len(b) < 2:
            return None
        p = b[1]
        if p == 0x3F:
            return Dec("SWI2" if o == 0x10 else "SWI3", "inh", 2)
        if o == 0x10 and 0x21 <= p <= 0x2F:
            if len(b) < 4:
                return None
            return Dec("L" + _BRANCH[p - 0x20], "rel16", 4, value=_s16(_word(b, 2)))
        if 0x80 <= p <= 0xFF:
            row = (p // 16) % 4
            low = p % 16
            if o == 0x10:
                table = _P2 if p < 0xC0 else _P2B
            else:
                table = _P3 if p < 0xC0 else {}
            if low not in table:
                return None
            return _mem(table[low], row, b, 2, True)
        return None
    if o < 0x10:
        if o % 16 not in _RMW:
            return None
        if len(b) < 2:
            return None
        return Dec(_RMW[o % 16], "dir", 2, value=b[1])
    if o < 0x20:
        if o not in _MISC:
            return None
        return _simple(_MISC[o], b)
    if o < 0x30:
        if len(b) < 2:
            return None
        return Dec(_BRANCH[o - 0x20], "rel8", 2, value=_s8(b[1]))
    if o < 0x40:
        if o not in _MISC:
            return None
        return _simple(_MISC[o], b)
    if o < 0x60:
        low = o % 16
        if low not in _RMW or low == 0xE:
            return None
        return Dec(_RMW[low] + ("A" if o < 0x50 else "B"), "inh", 1)
    if o < 0x80:
        low = o % 16
        if low not in _RMW:
            return None
        return _mem(_RMW[low], 2 if o < 0x70 else 3, b, 1, False)
    row = (o // 16) % 4
    low = o % 16
    if o == 0x8D:
        if len(b) < 2:
            return None
        return Dec("BSR", "rel8", 2, value=_s8(b[1]))
    op, is16 = (_ACC_A if o < 0xC0 else _ACC_B)[low]
    return _mem(op, row, b, 1, is16)


def _simple(entry, b):
    op, mode = entry
    if mode == "inh":
        return Dec(op, "inh", 1)
    if mode == "imm8":
        if len(b) < 2:
            return None
        return Dec(op, "imm8", 2, value=b[1])
    if mode == "rel16":
        if len(b) < 3:
            return None
        return Dec(op, "rel16", 3, value=_s16(_word(b, 1)))
    if mode == "idx":
        r = decode_postbyte(b, 1)
        if r is None:
            return None
        idx, used = r
        return Dec(op, "idx", 1 + used, idx=idx)
    if mode in ("pair", "regs"):
        if len(b) < 2:
            return None
        return Dec(op, mode, 2, value=b[1])
    return None


# ---- what the datasheet says each mnemonic supports (for validity in C01/C12 and the cross-check)
def datasheet_modes():
    """mnemonic (incl. aliases) -> set of modes among inh imm8 imm16 dir idx ext rel8 rel16 regs pair"""
    modes = {}

    def add(op, mode):
        modes.setdefault(op, set()).add(mode)

    for pre in (None, 0x10, 0x11):
        for o in range(256):
            if pre is None and o in (0x10, 0x11):
                continue
            d = decode(([pre] if pre is not None else []) + [o, 0x84, 0x00, 0x00, 0x00])
            if d is not None:
                add(d.op, d.mode)
    for alias, canon in ALIASES.items():
        modes[alias] = set(modes[canon])
    return modes


def stack_mask(op, regs):
    """PSHS/PULS/PSHU/PULU post-byte for a list of register names; None if a register is not allowed"""
    other = "U" if op in ("PSHS", "PULS") else "S"
    m = 0
    for r in regs:
        if r == "D":
            m |= 0x06
        elif r == other:
            m |= 0x40
        elif r in STACK_BITS:
            m |= STACK_BITS[r]
        else:
            return None
    return m


def pair_byte(r1, r2):
    """TFR/EXG post-byte or None if the pair mixes sizes / unknown registers"""
    if r1 not in PAIR_CODES or r2 not in PAIR_CODES:
        return None
    if (r1 in PAIR_16) != (r2 in PAIR_16):
        return None
    return PAIR_CODES[r1] * 16 + PAIR_CODES[r2]
