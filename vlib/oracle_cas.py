"""
O-CAS: an independent CoCo cassette (.CAS) stream parser / verifier / writer, written from the Color BASIC tape format:
a block is  $55 $3C type len payload[len] checksum $55,  checksum = (type + len + sum(payload)) mod 256;
a file is   leader, namefile block (type $00, 15 bytes), leader, data blocks (type $01, 1..255 bytes), EOF block ($FF, 0).
Between blocks only leader ($55) and blank ($00) bytes may occur.  Plain Python over ints (runs symbolically too).
"""


class TapeError(Exception):
    pass


def next_block(buf, p):
    """find the next block at or after p; everything skipped must be leader/blank.  -> (type, payload, end, start) or None"""
    n = len(buf)
    while p < n:
        if buf[p] == 0x55 and p + 1 < n and buf[p + 1] == 0x3C:
            break
        if buf[p] != 0x55 and buf[p] != 0x00:
            raise TapeError("byte %r at %d between blocks is neither leader nor blank" % (buf[p], p))
        p += 1
    else:
        return None
    start = p
    if p + 4 > n:
        raise TapeError("truncated block header at %d" % p)
    btype = buf[p + 2]
    blen = buf[p + 3]
    if p + 4 + blen + 2 > n:
        raise TapeError("truncated block at %d" % p)
    payload = buf[p + 4:p + 4 + blen]
    ck = buf[p + 4 + blen]
    s = btype + blen
    for x in payload:
        s = s + x
    if ck != s % 256:
        raise TapeError("bad checksum at %d" % p)
    if buf[p + 5 + blen] != 0x55:
        raise TapeError("missing trailing $55 at %d" % p)
    return btype, payload, p + 6 + blen, start


def parse(buf):
    """-> list of files: dict(name bytes(8), ftype, dtype, gap, load, exec, data, blocks=[(start, type, len)])"""
    files = []
    p = 0
    while True:
        blk = next_block(buf, p)
        if blk is None:
            return files
        btype, payload, p, start = blk
        if btype != 0x00:
            raise TapeError("expected a namefile block at %d, got type %r" % (start, btype))
        if len(payload) != 15:
            raise TapeError("namefile block with %d payload bytes" % len(payload))
        f = {"name": payload[0:8], "ftype": payload[8], "dtype": payload[9], "gap": payload[10],
             "load": payload[11] * 256 + payload[12], "exec": payload[13] * 256 + payload[14], "data": [],
             "blocks": [(start, 0, 15)]}
        while True:
            blk = next_block(buf, p)
            if blk is None:
                raise TapeError("file without EOF block")
            btype, payload, p, start = blk
            f["blocks"].append((start, btype, len(payload)))
            if btype == 0xFF:
                if len(payload) != 0:
                    raise TapeError("EOF block with payload")
                break
            if btype != 0x01:
                raise TapeError("unexpected block type %r inside a file" % btype)
            if len(payload) == 0:
                raise TapeError("empty data block")
            f["data"] = f["data"] + payload
        files.append(f)


def name_bytes(name):
    """8 bytes: name padded with spaces / truncated to 8"""
    b = [ord(c) for c in name[:8]]
    return b + [0x20] * (8 - len(b))


def fold(bs):
    """case-fold a list of name bytes (concrete)"""
    return [x - 32 if 97 <= x <= 122 else x for x in bs]


def leader_before(buf, start, minimum=1):
    """number of consecutive $55 bytes immediately before position start"""
    k = 0
    while start - 1 - k >= 0 and buf[start - 1 - k] == 0x55:
        k += 1
        if k >= 4096:
            break
    return k


def block(btype, payload):
    s = btype + len(payload)
    for x in payload:
        s = s + x
    return [0x55, 0x3C, btype, len(payload)] + list(payload) + [s % 256, 0x55]


def write(files, leader=128, blank=128, gaps=False, chunk=255):
    """independent writer: files = list of dict(name, ftype, dtype, load, exec, data)"""
    out = []
    for f in files:
        out += [0x00] * blank + [0x55] * leader
        hdr = name_bytes(f["name"]) + [f["ftype"], f["dtype"], 0xFF if gaps else 0x00,
                                       f["load"] // 256, f["load"] % 256, f["exec"] // 256, f["exec"] % 256]
        out += block(0x00, hdr)
        out += [0x00] * blank + [0x55] * leader
        data = f["data"]
        first = True
        for i in range(0, len(data), chunk):
            if gaps and not first:
                out += [0x00] * blank + [0x55] * leader
            out += block(0x01, data[i:i + chunk])
            first = False
        if gaps:
            out += [0x00] * blank + [0x55] * leader
        out += block(0xFF, [])
    return out
