"""
O-DECB: independent Disk Extended Color BASIC filesystem checker / reader / writer for 35-track single-sided images
(161,280 bytes).  Written from the Disk BASIC format: 68 granules of 9 sectors (2304 bytes), track 17 holds the
allocation table (sector 2) and the directory (sectors 3-11, 72 entries of 32 bytes).  Plain Python over ints.
"""
from crosshair.tracers import NoTracing

IMAGE_SIZE = 35 * 18 * 256
GRAN = 2304
NGRAN = 68
FAT = 17 * 18 * 256 + 256          # track 17, sector 2
DIR = FAT + 256                    # track 17, sector 3
NDIR = 72
TRACK17 = 17 * 18 * 256


class FsError(Exception):
    pass


def gran_offset(g):
    """byte offset of granule g (granules 34.. lie after the directory track)"""
    return g * GRAN + (2 * GRAN if g >= 34 else 0)


def chain(buf, first):
    """-> (list of granules, sectors used in the last one); raises FsError on any structural fault"""
    seen = []
    g = first
    while True:
        if not (0 <= g < NGRAN):
            raise FsError("granule %r outside 0-67" % (g,))
        if g in seen:
            raise FsError("chain revisits granule %r" % (g,))
        seen.append(g)
        e = buf[FAT + g]
        if e >= 0xC0:
            n = e - 0xC0
            if n > 9:
                raise FsError("last-granule marker with %r sectors" % (n,))
            return seen, n
        if e == 0xFF:
            raise FsError("chain runs into a free granule")
        g = e


def entries(buf):
    """directory entries in use: list of dict(slot, name(8 bytes), ext(3 bytes), ftype, ascii, first, lastbytes)"""
    out = []
    for slot in range(NDIR):
        p = DIR + 32 * slot
        b0 = buf[p]
        if b0 == 0x00 or b0 == 0xFF:
            continue
        out.append({"slot": slot, "name": buf[p:p + 8], "ext": buf[p + 8:p + 11], "ftype": buf[p + 11],
                    "ascii": buf[p + 12], "first": buf[p + 13], "lastbytes": buf[p + 14] * 256 + buf[p + 15]})
    return out


def stream(buf, grans, nsec, lastbytes):
    """the stored byte stream of a file, concatenating its granules in CHAIN order"""
    if nsec == 0:
        length = (len(grans) - 1) * GRAN
    else:
        length = (len(grans) - 1) * GRAN + (nsec - 1) * 256 + lastbytes
    out = []
    remaining = length
    for g in grans:
        take = GRAN if remaining > GRAN else remaining
        off = gran_offset(g)
        out = out + buf[off:off + take]
        remaining -= take
    return out, length


def fsck(buf, expected_streams=None):
    """full consistency check; returns list of (entry, granules, stream).  expected_streams: list of byte lists, in
    directory order, that the stored streams must equal exactly (length equation + content)."""
    if len(buf) != IMAGE_SIZE:
        raise FsError("image is %d bytes" % len(buf))
    ents = entries(buf)
    owner = {}
    files = []
    for e in ents:
        grans, nsec = chain(buf, e["first"])
        for g in grans:
            if g in owner:
                raise FsError("granule %d is on two chains" % g)
            owner[g] = e["slot"]
        if e["lastbytes"] > 256:
            raise FsError("bytes-in-last-sector %r" % (e["lastbytes"],))
        st, length = stream(buf, grans, nsec, e["lastbytes"])
        files.append((e, grans, st))
    for g in range(NGRAN):
        if buf[FAT + g] != 0xFF and g not in owner:
            raise FsError("allocation entry %d is not free but belongs to no file" % g)
    if expected_streams is not None:
        if len(files) != len(expected_streams):
            raise FsError("%d files in directory, %d expected" % (len(files), len(expected_streams)))
        for (e, grans, st), exp in zip(files, expected_streams):
            if len(st) != len(exp):
                raise FsError("stored stream length %r, expected %r" % (len(st), len(exp)))
            if st != exp:
                raise FsError("stored stream differs")
            need = len(exp) // GRAN + 1 if len(exp) % GRAN else max(1, len(exp) // GRAN)
            if not (len(grans) == need or (len(exp) % GRAN == 0 and len(grans) == need + 1)):
                raise FsError("%d granules for %d bytes" % (len(grans), len(exp)))
    return files


def untouched_outside(buf, files, blank=0xFF):
    """no byte outside the allocated granules, the allocation sector and the directory sectors differs from a freshly
    formatted image.  The scan is native; only non-blank candidates are examined (symbolically if need be)."""
    allowed = []
    for (_e, grans, _st) in files:
        for g in grans:
            allowed.append((gran_offset(g), gran_offset(g) + GRAN))
    allowed.append((FAT, DIR + NDIR * 32))
    with NoTracing():
        cand = [i for i, x in enumerate(buf) if not (type(x) is int and x == blank)]
    for i in cand:
        inside = False
        for (a, b) in allowed:
            if a <= i < b:
                inside = True
                break
        if not inside:
            if buf[i] != blank:
                return False
    return True


def ml_stream(d):
    n = len(d["data"])
    return [0x00, n // 256, n % 256, d["load"] // 256, d["load"] % 256] + list(d["data"]) + \
           [0xFF, 0x00, 0x00, d["exec"] // 256, d["exec"] % 256]


def expected_stream(d):
    """what the tool stores for a file description (ML: preamble/data/postamble; BASIC: FF len data; ASCII: data)"""
    if d["ftype"] == 2:
        return ml_stream(d)
    if d["dtype"] == 0xFF:
        return list(d["data"])
    n = len(d["data"])
    return [0xFF, n // 256, n % 256] + list(d["data"])


def name11(name, ext):
    nm = [ord(c) for c in name.upper()[:8]]
    ex = [ord(c) for c in ext.upper()[:3]]
    return nm + [0x20] * (8 - len(nm)), ex + [0x20] * (3 - len(ex))


def blank_image():
    return [0xFF] * IMAGE_SIZE


def write_image(descs, chains, buf=None, slots=None, deleted=()):
    """independent writer: store each description's stream on the given granule chain (list of granule numbers).
    slots: directory slot per file (default 0,1,2..); deleted: slots marked as deleted entries (first byte $00)"""
    buf = buf if buf is not None else blank_image()
    for s in deleted:
        p = DIR + 32 * s
        buf[p:p + 32] = [0x00] + [ord(c) for c in "KILLED "] + [ord(c) for c in "BAS"] + [0, 0, 0, 0, 0] + [0] * 16
    slots = slots if slots is not None else list(range(len(descs)))
    for slot, (d, grans) in zip(slots, zip(descs, chains)):
        st = expected_stream(d)
        need = max(1, -(-len(st) // GRAN))
        if len(grans) != need:
            raise ValueError("chain of %d granules for %d bytes (need %d)" % (len(grans), len(st), need))
        pos = 0
        for g in grans:
            part = st[pos:pos + GRAN]
            off = gran_offset(g)
            buf[off:off + len(part)] = part
            pos += GRAN
        for a, b in zip(grans, grans[1:]):
            buf[FAT + a] = b
        tail = len(st) - (len(grans) - 1) * GRAN
        nsec = 0 if tail == 0 else -(-tail // 256)
        lastbytes = 0 if tail == 0 else tail - (nsec - 1) * 256
        buf[FAT + grans[-1]] = 0xC0 + nsec
        p = DIR + 32 * slot
        nm, ex = name11(d["name"], d["ext"])
        buf[p:p + 32] = nm + ex + [d["ftype"], d["dtype"], grans[0], lastbytes // 256, lastbytes % 256] + [0] * 16
    for i in range(FAT + NGRAN, DIR):
        buf[i] = 0x00
    return buf
