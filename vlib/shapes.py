"""
Shape generators S: statement shapes enumerated from the README grammar and the datasheet mode table
(oracle_6809.datasheet_modes -- independent of cocoasm/instruction.py).  Text is concrete; values are symbolic.
"""
import itertools
import random

from .oracle_6809 import ALIASES, IDX_REGS, PAIR_CODES, canonical, datasheet_modes

MODES = datasheet_modes()
MNEMONICS = sorted(MODES)

IMM8 = sorted(m for m in MODES if "imm8" in MODES[m])
IMM16 = sorted(m for m in MODES if "imm16" in MODES[m])
MEM = sorted(m for m in MODES if "ext" in MODES[m])            # every op with ext also has dir and idx
IDX = sorted(m for m in MODES if "idx" in MODES[m])            # MEM + LEAx
INH = sorted(m for m in MODES if "inh" in MODES[m])
REL8 = sorted(m for m in MODES if "rel8" in MODES[m])
REL16 = sorted(m for m in MODES if "rel16" in MODES[m])
STACK = ["PSHS", "PULS", "PSHU", "PULU"]
PAIR = ["TFR", "EXG"]
PSEUDO = ["END", "ORG", "EQU", "SET", "RMB", "FCB", "FDB", "FCC", "SETDP", "INCLUDE", "NAM"]

# instruction classes (representatives first) used to thin the quick tier
CLASS_REPS = {
    "acc8": ["LDA", "ADDB", "CMPA", "EORB"],
    "reg16": ["LDX", "ADDD", "CMPX"],
    "reg16p": ["LDY", "CMPS", "CMPD"],
    "store8": ["STA", "STB"],
    "store16": ["STX", "STD", "STY"],
    "rmw": ["NEG", "CLR", "TST", "ASL"],
    "jump": ["JMP", "JSR"],
    "lea": ["LEAX", "LEAS"],
}


def mclass(m):
    """instruction class from the datasheet: width of the operand and opcode page"""
    md = MODES[m]
    if m in ("JMP", "JSR"):
        return "jump"
    if m.startswith("LEA"):
        return "lea"
    if "imm16" in md:
        return "reg16p" if m in ("CMPD", "CMPY", "CMPU", "CMPS", "LDY", "LDS") else "reg16"
    if m in ("STD", "STX", "STU"):
        return "store16"
    if m in ("STY", "STS"):
        return "store16p"
    if m in ("STA", "STB"):
        return "store8"
    if "imm8" in md and "dir" in md:
        return "acc8"
    if "imm8" in md:
        return "cc"
    if "dir" in md:
        return "rmw"
    if "inh" in md:
        return "inh"
    if "rel8" in md:
        return "rel8"
    if "rel16" in md:
        return "rel16"
    if "regs" in md:
        return "stack"
    if "pair" in md:
        return "pair"
    return "other"


def opcode_len(m):
    return 2 if mclass(m) in ("reg16p", "store16p") or m in ("SWI2", "SWI3") or (m in REL16 and m not in ("LBRA", "LBSR")) else 1


# ---- operand forms.  fmt: operand text with {v} for the value and {R} for the index register.
# kind: how the value is used;  needs: datasheet mode that must exist for the statement to be valid
FORMS = {
    # name        fmt            needs   value?
    "inh":      ("",            "inh",  False),
    "imm":      ("#{v}",        "imm",  True),
    "mem":      ("{v}",         "ext",  True),
    "dir":      ("<{v}",        "dir",  True),
    "ext":      (">{v}",        "ext",  True),
    "extind":   ("[{v}]",       "idx",  True),
    "idx0":     (",{R}",        "idx",  False),
    "idxR":     ("{R}",         "idx",  False),
    "idxv":     ("{v},{R}",     "idx",  True),
    "accA":     ("A,{R}",       "idx",  False),
    "accB":     ("B,{R}",       "idx",  False),
    "accD":     ("D,{R}",       "idx",  False),
    "inc1":     (",{R}+",       "idx",  False),
    "inc2":     (",{R}++",      "idx",  False),
    "dec1":     (",-{R}",       "idx",  False),
    "dec2":     (",--{R}",      "idx",  False),
    "pcr":      ("{v},PCR",     "idx",  True),
    "[idx0]":   ("[,{R}]",      "idx",  False),
    "[idxv]":   ("[{v},{R}]",   "idx",  True),
    "[accA]":   ("[A,{R}]",     "idx",  False),
    "[accB]":   ("[B,{R}]",     "idx",  False),
    "[accD]":   ("[D,{R}]",     "idx",  False),
    "[inc1]":   ("[,{R}+]",     "idx",  False),     # illegal on the 6809: must be rejected
    "[inc2]":   ("[,{R}++]",    "idx",  False),
    "[dec1]":   ("[,-{R}]",     "idx",  False),     # illegal
    "[dec2]":   ("[,--{R}]",    "idx",  False),
    "[pcr]":    ("[{v},PCR]",   "idx",  True),
}
REG_FORMS = [f for f, (fmt, _n, _v) in FORMS.items() if "{R}" in fmt]
VALUE_FORMS = [f for f, (_fmt, _n, v) in FORMS.items() if v]

# literal spelling classes per value form (quick: the covering ones; thorough: all)
LIT_QUICK = ["D5", "H4", "H2", "N5", "B8"]
LIT_ALL = ["D1", "D2", "D3", "D4", "D5", "D7", "H1", "H2", "H3", "H4", "H5", "B8", "B16", "B7", "N1", "N2", "N3", "N4",
           "N5"]


def has_form(m, form):
    need = FORMS[form][1]
    md = MODES[m]
    if need == "imm":
        return "imm8" in md or "imm16" in md
    return need in md


def imm_width(m):
    md = MODES[m]
    return 8 if "imm8" in md else 16 if "imm16" in md else None


def valid(m, form, v):
    """Appendix A: is `m form(v)` a valid statement?  (v may be symbolic; returns bool-like)
    None = accepted either way (README/datasheet silent)."""
    if not has_form(m, form):
        return False
    if form in ("[inc1]", "[dec1]"):
        return False
    if form == "imm":
        if imm_width(m) == 8:
            return (-128 <= v) and (v <= 255)
        return (-32768 <= v) and (v <= 65535)
    if form in ("mem", "ext", "extind"):
        return (0 <= v) and (v <= 65535)
    if form == "dir":
        return (0 <= v) and (v <= 255)
    if form in ("idxv", "[idxv]", "pcr", "[pcr]"):
        return (-32768 <= v) and (v <= 65535)
    return True


def operand_text(form, vtext="", reg="X"):
    return FORMS[form][0].format(v=vtext, R=reg)


# ---- register lists / pairs
STACK_REGS = ["CC", "A", "B", "DP", "X", "Y", "U", "S", "PC", "D"]
PAIR_REGS = list(PAIR_CODES)


def stack_lists(tier, rnd):
    """register lists for PSH/PUL: all singletons (incl. the illegal own-stack register), ordered pairs sample,
    and in thorough all 2^9 subsets in canonical order"""
    out = [[r] for r in STACK_REGS]
    base = ["CC", "A", "B", "DP", "X", "Y", "U", "PC"]
    if tier == "thorough":
        for k in range(2, 9):
            for c in itertools.combinations(base, k):
                out.append(list(c))
        for c in itertools.permutations(["A", "B", "X", "S", "U", "D"], 2):
            out.append(list(c))
    else:
        out += [["A", "B"], ["B", "A"], ["CC", "A", "B", "DP", "X", "Y", "U", "PC"], ["X", "Y", "U"], ["D", "X"],
                ["PC", "CC"], ["Y", "S"]]
        for _ in range(6):
            k = rnd.randint(2, 6)
            out.append(rnd.sample(base, k))
    return out


def pairs():
    return [(a, b) for a in PAIR_REGS for b in PAIR_REGS]
